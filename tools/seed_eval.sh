#!/bin/bash
# usage: seed_eval.sh <property id> <seed dir with patch.diff + demo_test.py> [checks to run, default: the property's]
# 1. confirms in a scratch worktree that the change passes the full test-suite and that the demo fails with / passes without it
# 2. applies the change to /repo, runs the quick check(s), restores /repo
set -u
ID=$1; SD=$2; shift 2; CHECKS=${*:-$ID}
WT=$(mktemp -d /tmp/seedverify.XXXX)
git -C /repo worktree add -q --detach "$WT" HEAD || exit 2
cd "$WT"
export PYTHONPATH="$WT/src"
echo "== demo WITHOUT change"; /venv/bin/python -m pytest -q -p no:cacheprovider "$SD/demo_test.py" 2>&1 | tail -2
git apply "$SD/patch.diff" || { echo "PATCH DOES NOT APPLY"; git -C /repo worktree remove --force "$WT"; exit 2; }
echo "== demo WITH change"; /venv/bin/python -m pytest -q -p no:cacheprovider "$SD/demo_test.py" 2>&1 | tail -2
if [ "${SKIP_SUITE:-0}" != 1 ]; then echo "== full suite WITH change"; /venv/bin/python -m pytest -q -p no:cacheprovider -x 2>&1 | tail -1; fi
cd /verif; unset PYTHONPATH
git -C /repo worktree remove --force "$WT"
[ "${NOAPPLY:-0}" = 1 ] && exit 0
git -C /repo apply "$SD/patch.diff" || exit 2
for c in $CHECKS; do echo "== check $c on the seeded tree"; ./check $c --tier ${TIER:-quick} 2>&1 | grep -E "VIOLATION|INCONCLUSIVE|KNOWN|exit=" | cut -c1-400 | head -8; done
git -C /repo checkout -- .
git -C /repo status --short | head -3
