#!/bin/bash
# kill stray harness worker processes (orphans of an interrupted run); never matches the calling shell
for pid in $(pgrep -f "vcheck|/tmp/t1[0-9]\.py"); do
    if [ "$pid" != "$$" ] && [ "$pid" != "$PPID" ]; then
        comm=$(cat /proc/$pid/comm 2>/dev/null)
        case "$comm" in python*) kill -9 "$pid" 2>/dev/null;; esac
    fi
done
exit 0
