#!/bin/bash
# with_patch.sh <patch> <timeout_s> <cmd...>: apply a patch to /repo, run the command, ALWAYS restore /repo
P=$1; T=$2; shift 2
git -C /repo apply "$P" || exit 2
trap 'git -C /repo checkout -- . ; pkill -P $$ 2>/dev/null' EXIT INT TERM
timeout -k 5 "$T" "$@"
