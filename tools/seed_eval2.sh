#!/bin/bash
# usage: seed_eval2.sh <seed dir with patch.diff + demo_test.py> <check ids...>
# Like seed_eval.sh, but never touches /repo: the change is applied in a scratch worktree and the checks are pointed
# at it with VERIF_REPO (several seeds can be evaluated side by side; background runs on /repo are not disturbed).
# env: SKIP_SUITE=1 (skip the full test-suite), TIER=quick|thorough, KEEP_WT=1
set -u
SD=$1; shift; CHECKS=$*
WT=$(mktemp -d /tmp/seedverify.XXXX)
git -C /repo worktree add -q --detach "$WT" HEAD || exit 2
trap '[ "${KEEP_WT:-0}" = 1 ] || git -C /repo worktree remove --force "$WT" 2>/dev/null' EXIT
cd "$WT"
echo "== demo WITHOUT change"; PYTHONPATH="$WT/src" /venv/bin/python -m pytest -q -p no:cacheprovider "$SD/demo_test.py" 2>&1 | tail -2
git apply "$SD/patch.diff" || { echo "PATCH DOES NOT APPLY"; exit 2; }
echo "== demo WITH change"; PYTHONPATH="$WT/src" /venv/bin/python -m pytest -q -p no:cacheprovider "$SD/demo_test.py" 2>&1 | tail -2
if [ "${SKIP_SUITE:-0}" != 1 ]; then echo "== full suite WITH change"; PYTHONPATH="$WT/src" /venv/bin/python -m pytest -q -p no:cacheprovider -x 2>&1 | tail -1; fi
cd /verif
EV=$(mktemp -d /tmp/seedev.XXXX)
for c in $CHECKS; do echo "== check $c on the seeded tree"; VERIF_REPO="$WT" VERIF_EVIDENCE_DIR="$EV" ./check $c --tier ${TIER:-quick} 2>&1 | grep -E "VIOLATION|INCONCLUSIVE|KNOWN|exit=|obligation " | cut -c1-500 | head -10; done
rm -rf "$EV"
