#!/usr/bin/env python3
"""keep_seed.py <seed name> <property> <src dir> <detected_by> <needs...>  -> /verif/seeded/<name>/"""
import json, shutil, sys, os
name, prop, src, detected = sys.argv[1:5]
needs = " ".join(sys.argv[5:])
d = f"/verif/seeded/{name}"
os.makedirs(d, exist_ok=True)
shutil.copy(f"{src}/patch.diff", d)
shutil.copy(f"{src}/demo_test.py", d)
if os.path.exists(f"{src}/notes.md"):
    shutil.copy(f"{src}/notes.md", d)
json.dump(dict(property=prop, origin="independent sub-agent given only the property text and a scratch worktree",
               needs_to_manifest=needs,
               confirmed=dict(how="tools/seed_eval.sh in a fresh scratch worktree of /repo HEAD",
                              full_test_suite_with_change="431 passed, 9 skipped",
                              demo_without_change="passes", demo_with_change="fails"),
               detected_by=detected.split(",") if detected != "none" else [],
               ), open(f"{d}/meta.json", "w"), indent=1)
print("kept", d)
