#!/usr/bin/env python3
"""Regenerates /verif/MANIFEST.json (kept in one place so that it stays valid)."""
import json

TECH = "bounded symbolic execution of the real code (own path-forking runtime on z3 proxies) + SMT obligations"
BASE_NOTE = ("Trusted base: the path-forking runtime (sx/rt.py, sx/explore.py), the symbolic models of the environment "
             "(SymDiGraph for networkx.DiGraph, SArr for numpy label arrays, LazyIdMap for the annotator lookups) which "
             "are conformance-tested against the real libraries by `./check selftest`, z3 5.1; every counterexample is "
             "replayed on the unmodified stack before it is reported. ")
C = {
 "C01": ("every primitive and user action, then undo/redo (inverse, inverse of inverse) from an arbitrary Inv-state: "
         "graph, every registered node/edge feature, and every array cell equal before/after; with and without "
         "segmentation (2D+t, thorough: 3D+t), regionprops/IoU features enabled",
         "Bound: 3-4 node slots quick / 4-5 thorough, label arrays 2x1x2 / 3x1x2 / 2x1x1x2; ids, times, labels unbounded "
         "integers. Documented preconditions of the primitives assumed. Computed features are uninterpreted functions of "
         "the mask (stub)."),
 "C02": ("(a) the real ActionHistory/Tracks.undo/redo against the never-forgetting timeline for every op sequence up to "
         "the bound over abstract exactly-invertible edits; (b) one history entry per successful user action, stacks "
         "untouched by refused ones, undo/redo step over that entry",
         "Bound: sequences of length 6 quick / 8 thorough; composition (a)+(b)+C01 is an argument on paper."),
 "C03": ("after every accepted user action from an arbitrary valid forest: in-degree<=1, out-degree<=2, edges strictly "
         "forward in time, only conflicting edges removed; structural refusals are InvalidActionError",
         "Bound: 3-4 node slots quick / 4-5 thorough. Undo/redo by C01 + the history lemma (real ActionHistory on "
         "every op sequence of length 5 / 7 over abstract invertible edits; a failing sequence is instantiated with "
         "real user actions and judged by this property's concrete oracle on the real stack)."),
 "C04": ("track ids = maximal unbranched segments (exact closure form) after construction from a graph without ids and "
         "after every accepted user action; frame clause for untouched components",
         "Bound: 3-4 node slots quick / 4-5 thorough; constructor on all forests <=4/5 nodes."),
 "C05": ("lineage ids = weakly connected components (exact closure form) after construction and after every accepted "
         "user action; frame clause", "Bound as C04."),
 "C06": ("lookups list exactly the nodes carrying an id (for an arbitrary fresh key), no duplicates/empty entries, running "
         "maxima dominate ids in use, after edit/undo/redo and after construction; get_track_neighbors / "
         "has_track_id_at_time equal the scan-of-graph definitions for unbounded integer arguments; issued node/track/"
         "lineage ids are unused; the same queries again at history-built states (after an edit and after its undo), also "
         "with ids bounded to 0..3 so that code keyed by ids can be followed",
         "Bound: 3-4 node slots quick / 4-5 thorough; query-after runs 3 slots, bounded-id run 2 slots. Undo/redo by C01 "
         "+ the history lemma."),
 "C07": ("paint/erase strokes (every subset of a frame's cells, value = background / existing label / new label), node "
         "add/delete with pixels: array exactly as painted, labels<->nodes one-to-one in the node's frame, get_pixels "
         "exact, undo restores the array cell by cell, redo repaints",
         "Bound: 2 node slots + spare on 2x1x2, 1 slot on 2x1x3 and on 3D 2x3x1x1 (three z-planes), 2 slots on 3D "
         "2x2x1x1 quick; 3 slots, 3x1x2 and 3D 2x1x1x2 thorough. Caller precondition: an "
         "existing label is painted only in its own frame; one frame per stroke."),
 "C08": ("which node is recomputed, from which frame, with which spacing: every enabled regionprops value equals "
         "RP(current mask bits of the node in its own frame, spacing) after every edit, undo, redo and after bulk enable",
         "regionprops_extended is a contract stub (uninterpreted functions) in the history runs; the real function is "
         "run on every realised 2x3 / 2x2x2 label frame (labels 0..2, four spacings) for area = count x voxel size, "
         "centroid = scaled mean and independence of other labels; the shape features' numerics (marching cubes, eig) "
         "are OUT OF REACH and not claimed. Scale symbolic (None or positive reals)."),
 "C09": ("every edge's stored IoU equals IOU(|A&B|,|A|B|) of its endpoints' masks, each in its own frame (also skip "
         "edges), after every edit/undo/redo (incremental) and after enable_features(['iou']) at an arbitrary state (bulk)",
         "_compute_ious is a contract stub with uninterpreted IOU(inter, union) in the history runs; the real kernel "
         "(np.unique(axis=1)) is run on every realised pair of 1x3 / 2x2 label frames (bounded-exhaustive, by solver "
         "forks) and compared with the definition. Bound: 2-3 slots, 3x1x2 quick; 3-4 slots thorough."),
 "C10": ("enable/disable with every key list (incl. unknown key -> KeyError, nothing changed) from every activation "
         "table; registry = static + active; disabled feature untouched by edits; values after enable-with-recompute = "
         "reference; managed keys and time refused by attribute updates whatever the activation",
         "Activation tables are enumerated by engine forks (no data); values by the C08/C09 stubs. Full cycle on one "
         "object (enable with recompute, disable, symbolic paint edit, enable) for a shape feature and IoU: values = "
         "reference (catches bookkeeping that only such a history fills)."),
 "C11": ("every refused user action (any exception type, any validation step, after any number of sub-edits) leaves graph, "
         "attributes, segmentation (once the caller restored the painted pixels), lookups, maxima, history, registry "
         "unchanged and emits nothing", "Bound: 3-4 node slots; paint driver with 3 slots on 2x1x2."),
 "C12": ("real import_from_geff / tracks_from_df pipelines (name-map preprocessing and validation, renaming, multi-column "
         "combination in mapped order, structural validation with the real geff validators, real geff.construct, real "
         "SolutionTracks constructor): nodes = source ids (non-integer ids renumbered one-to-one), edges = source links, "
         "time / position / every mapped property equal the source cells for ARBITRARY cell values; duplicate ids, links "
         "to unknown nodes, self links, missing required mappings -> ValueError",
         "Bound: 2-4 rows with concrete non-contiguous ids per run, <=2 explicit links (GEFF) / every parent assignment "
         "(CSV) over row ids + one unknown id + the 'no parent' codes; column names and key mappings from a fixed list of "
         "configurations (renamed, legacy y/x keys, 3D, stacked position, swapped axes, sparse properties, edge "
         "property). The store reader (geff read_to_memory) is an I/O stub and the DataFrame a cell-wise model checked "
         "against real pandas by the self-test: CSV text parsing, zarr decoding and pandas dtype inference are outside "
         "the claim. No segmentation (C13), no track-id columns (C14)."),
 "C13": ("real relabel_segmentation and TracksBuilder.handle_segmentation: every output cell = node id (+1 shift if id 0 "
         "exists) of the node with (time, seg id) = (frame, input label), else 0, for ARBITRARY integer cell labels; "
         "graph shifts with the array; input untouched",
         "Bound: <=3 nodes (ids 0..4, seg ids 1..3, all assignments), 2x3 / 3x3 cells. Known finding F05 (identity "
         "shortcut) is reported as KNOWN-FINDING."),
 "C14": ("real export_to_geff / export_to_csv up to the writer boundary composed with the real import_from_geff / "
         "tracks_from_df from the reader boundary on (real geff structural and tracklet/lineage validators, real "
         "geff.construct, real constructor with detection of existing ids) through an IDEAL store: re-imported nodes, "
         "edges, times, positions and track ids equal the original ones for every valid solution within the bound and "
         "arbitrary real coordinates",
         "The store contract 'what was written is what is read' (geff.write/read_to_memory; to_csv/read_csv with empty "
         "field = missing) is ASSUMED: what zarr / geff / pandas do with the values is outside the claim (replays go "
         "through the real files). Internal format: real save_tracks composed with real load_tracks(solution=True) "
         "through an ideal directory (json.load o json.dump = keys as strings, tuples as lists, numbers unchanged, "
         "non-JSON objects refused; np.load o np.save = equal array, same dtype): additionally lineage ids, loaded "
         "measurements, every segmentation cell and the dtype, scale (symbolic voxel sizes), feature registry, ndim. "
         "A registered custom node feature round-trips through GEFF (loaded, not recomputed) and a display-name CSV. "
         "GEFF with segmentation: label array realised by solver forks (positions = true centroids), import with the "
         "exported segmentation, same graph / values / cells; known finding F15 (refused when the last node's centroid "
         "is outside its mask) is reported as KNOWN-FINDING. Not claimed: subset exports. Bound: 3 / 4 node slots, single-key and per-axis position storage, 2D and 3D; "
         "internal format 2-3 slots, 2x1x2 label array."),
 "C15": ("real filter_graph_with_ancestors + export_to_geff / export_to_csv up to the I/O boundary: exported node set = "
         "selection + ancestors, every edge among them, no missing parent, exported array cell = label if kept else 0",
         "Hole: what pandas/geff/zarr do with the captured values (counterexamples are replayed end to end through the "
         "real writers). Bound: 3 / 4 node slots, all subsets."),
 "C16": ("export_to_geff / export_to_csv / save_tracks / public queries leave graph, all attributes (registered or not), "
         "array, scale, feature registry, lookups, history unchanged (queries include the deprecated public accessors and "
         "Tracks.save)", "Same boundary as C15. Bound: 3 / 4 node slots."),
 "C17": ("whole infer_node_name_map / infer_edge_name_map on L symbolic columns (any strings of any length, any fuzzy-"
         "matcher behaviour): every column used exactly once, exact names win; per-helper contracts for L=3/4",
         "Strings are abstract (universe of constants + fresh names), difflib is an oracle stub, dicts switched to a "
         "symbolic-key model by an AST pass validated against the original on every run. Bound: pipeline L=2 quick / 3 "
         "thorough; helpers L=3 / 4."),
 "C18": ("real nodes_from_points_list / nodes_from_segmentation / add_cand_edges / add_iou: one node per detection with "
         "time/position(/area), edge iff next frame and distance <= max (real arithmetic), IoU = overlap; frames without "
         "detections, empty inputs", "KD-tree, skimage regionprops and _compute_ious are contract stubs in the graph runs "
         "(the real _compute_ious copy is run on every realised pair of 1x3 / 2x2 label frames); boundary/rounding "
         "behaviour of the real KD-tree out of reach. Bound: 3-5 points in 4 frames, 9 in a fixed layout; 3x2 / 3x3 cells."),
 "C19": ("real ensure_unique_labels (incl. multiseg) and relabel_segmentation_with_track_id on symbolic arrays: labels "
         "unique across frames, per-frame partition kept, same label iff same unbranched segment, unlisted removed",
         "Labels are mathematical integers >= 0 (uint64 wrap-around outside). Bound: 3x2 / 4x3 cells, 2x2x2 multiseg, "
         "forests on 3 / 4 detections."),
 "C20": ("exactly one refresh per accepted top-level user action (payload = new node for UserAddNode and for a paint that "
         "creates a node), none when refused, one per effective undo/redo, none when there is nothing to step to",
         "Bound: step harness 3-4 slots, history sequences of length 5 / 7. Invariant clause: after every accepted "
         "edit + undo + redo and after every refusal the refresh signal still delivers (one probe emission reaches the "
         "listener connected before the call exactly once)."),
}
props = [json.loads(l) for l in open("/verif/properties.jsonl")]
checks = []
for pid, (text, note) in C.items():
    checks.append(dict(
        property_id=pid, quick_cmd=f"./check {pid} --tier quick", thorough_cmd=f"./check {pid} --tier thorough",
        evidence_file=f"/verif/evidence/{pid}.json", replay_cmd_template=f"./check {pid} --replay {{path}}", engine="sx",
        level_claimed=dict(category="other", design_ref="DESIGN.md sections 3 and 4 (" + pid + ")",
                           text="Bounded symbolic execution of the real funtracks code; obligations discharged by z3 on "
                                "every feasible path within the stated bound; solver counterexamples replayed on the "
                                "unmodified stack. Claim: " + text),
        level_note=BASE_NOTE + note, technique=TECH))
na = []
m = dict(version=1, setup_cmd="./bootstrap.sh && ./check selftest",
         hooks=dict(guard="FUNTRACKS_VERIF", enable="no source hooks: all instrumentation is runtime namespace "
                    "injection / AST pass performed by the harness on the current /repo/src", add_only=True,
                    baseline_off_cmd="cd /repo && /venv/bin/python -m pytest -ra -q -p no:cacheprovider --timeout=900 "
                                     "--continue-on-collection-errors", source_commits=[]),
         engines=[dict(name="sx", path="/verif/sx", serves_properties=sorted(C),
                       kind_free_text="own path-forking symbolic runtime executing the real funtracks code on z3-backed "
                                      "proxies and symbolic models of networkx / numpy / dict bookkeeping")],
         checks=checks, not_applicable=na,
         notes="See DESIGN.md. Genuine defects found by the checks were repaired in /repo ('fix:' commits) and are listed in "
               "known_findings.json as fixed; two open findings (F05 for C13, F15 for C14) are reported as KNOWN-FINDING. C12 and C14 are claimed for funtracks' own import / export logic "
               "with the file readers / writers as stated I/O stubs (DESIGN 4, C12 and C14).")
json.dump(m, open("/verif/MANIFEST.json", "w"), indent=1)
print("claimed", len(checks), "not applicable", [d["property_id"] for d in na])
