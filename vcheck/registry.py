"""Which harness runs decide which property, per tier (bounds live here)."""
from __future__ import annotations

from .core import Run

EXPL = ("bounded symbolic execution of the real funtracks code (imported from /repo/src on every run) on z3-backed "
        "proxy values and symbolic models of networkx.DiGraph / numpy label arrays / TrackAnnotator lookups; every "
        "feasible path within the bound is explored by path-forking re-execution, the property is asserted as SMT "
        "obligations over the symbolic post-state and discharged by z3 (unsat of path-condition AND NOT obligation); "
        "a sat answer is replayed on the unmodified networkx/numpy stack before it is reported")

STEP_ASSUME = [
    "pre-state = ANY state satisfying the representation invariant Inv (forward binary forest, track/lineage ids label "
    "segments/components, lookups consistent, running maxima >= ids in use) on at most N node slots; times, ids, "
    "attribute values are unbounded mathematical integers",
    "induction: reachable states are over-approximated by Inv; undo/redo steps reduce to C01+C02 (DESIGN 3.3)",
    "iteration order of initial lookup lists is slot order; order of two successors is a symbolic permutation",
    "SymDiGraph / LazyIdMap models conform to networkx.DiGraph / dict-of-lists (conformance self-test on every run)",
    "UserAddNode attributes do not carry an explicit lineage id (it is derived by the action)",
]

USER = ["UserAddEdge", "UserDeleteEdge", "UserSwapPredecessors", "UserDeleteNode", "UserAddNode",
        "UserUpdateNodeAttrs"]
PRIMS = ["AddNode", "DeleteNode", "AddEdge", "DeleteEdge", "UpdateNodeAttrs", "UpdateTrackIDs"]

# node-slot bound per (action, tier)
STEP_N = {
    "quick": {"UserAddEdge": 4, "UserDeleteEdge": 4, "UserSwapPredecessors": 4, "UserDeleteNode": 4,
              "UserAddNode": 3, "UserUpdateNodeAttrs": 3,
              "AddNode": 3, "DeleteNode": 3, "AddEdge": 3, "DeleteEdge": 3, "UpdateNodeAttrs": 3,
              "UpdateTrackIDs": 4},
    "thorough": {"UserAddEdge": 5, "UserDeleteEdge": 5, "UserSwapPredecessors": 5, "UserDeleteNode": 5,
                 "UserAddNode": 4, "UserUpdateNodeAttrs": 4,
                 "AddNode": 4, "DeleteNode": 4, "AddEdge": 4, "DeleteEdge": 4, "UpdateNodeAttrs": 4,
                 "UpdateTrackIDs": 5},
}

STEP_PROPS = {"C01", "C02", "C03", "C04", "C05", "C06", "C11", "C20"}


def step_runs(prop, tier, actions):
    from harness import step, step_replay

    runs = []
    for a in actions:
        n = STEP_N[tier][a]
        need = ("accepted",) if a != "UpdateNodeAttrs" else ("accepted",)
        if a.startswith("User"):
            need = need + (("witness:state_changed",) if prop != "C11" else ())
        if prop in ("C11",):
            need = ()
        runs.append(Run(name=f"step:{a}:N={n}", harness=step.harness,
                        cfg=dict(N=n, action=a, props=[prop], followup=False),
                        replay=step_replay.replay, need_tags=need,
                        bound=f"{n} symbolic node slots + 1 spare id, all argument tuples (every node pair / node "
                              f"incl. one id not in the graph, force on/off, unbounded integer times and ids)"))
    if prop in ("C01", "C03", "C04", "C05", "C06"):
        # induction-hypothesis audit (harness/step.py:followup): does every accepted edit / undo re-establish the
        # clauses of Inv that OTHER properties own?  If not, a second symbolic user action follows from the broken
        # states and this property is asserted after it (two-edit histories).  Smaller bound: the continuation
        # multiplies the paths on a tree where the audit fails.
        m = 3 if tier == "quick" else 4
        for a in actions:
            if a.startswith("User") and a != "UserUpdateNodeAttrs":
                runs.append(Run(name=f"step:{a}:N={m}:two_edits", harness=step.harness,
                                cfg=dict(N=m, action=a, props=[prop], followup=True), replay=step_replay.replay,
                                need_tags=("accepted",),
                                bound=f"{m} node slots; whole-invariant audit after the edit and after its undo, "
                                      f"second symbolic user action (any of 5 kinds, all arguments) where it fails"))
    return runs


SEG_ASSUME = [
    "tracks with a symbolic label array (one integer term per cell, any values satisfying the label/node "
    "correspondence of Inv); stored regionprops / IoU values of the pre-state are consistent with the array",
    "regionprops_extended is a contract stub: one region per label present; each attribute is an uninterpreted "
    "function of the label's own mask bits and the spacing (numerics of skimage are out of reach)",
    "_compute_ious is a contract stub: (l1, l2, IOU(|l1&l2|, |l1|l2|)) for every overlapping label pair, IOU "
    "uninterpreted (the kernel itself is covered by the conformance self-test only)",
    "caller preconditions of the paint driver: one frame per stroke; an existing node's label is painted only in "
    "that node's own frame; node additions on tracks with segmentation carry non-empty background pixels",
]
SEG_STUBS = ["regionprops_extended -> uninterpreted functions of mask bits and spacing",
             "_compute_ious -> contract stub with uninterpreted IOU(inter, union)", "numpy ndarray -> SArr",
             "networkx.DiGraph -> SymDiGraph", "TrackAnnotator lookups -> LazyIdMap"]


def seg_runs(prop, tier, specs):
    """specs: list of (action, N, shape, extra cfg)"""
    from harness import seg_replay, segstep

    runs = []
    for action, n, shape, extra in specs:
        cfg = dict(N=n, action=action, shape=shape, props=[prop])
        cfg.update(extra)
        tagx = ",".join(k + "=" + ("scenario" if isinstance(v, dict) else str(v)) for k, v in extra.items())
        runs.append(Run(name=f"seg:{action}:N={n}:{'x'.join(map(str, shape))}" + (":" + tagx if tagx else ""),
                        harness=segstep.harness, cfg=cfg, replay=seg_replay.replay,
                        need_tags=("accepted",) + (("witness:division",) if n >= 3 and prop != "C11" else ())
                        + (("witness:skip_edge_pre",) if shape[0] >= 3 and n >= 2 and prop == "C09" else ()),
                        bound=f"{n} symbolic node slots + 1 spare id, label array {'x'.join(map(str, shape))} with "
                              f"symbolic cells, all strokes / argument tuples"))
    return runs


def enable_runs(prop, tier, specs):
    from harness import seg_replay, segstep

    runs = []
    for key, n, shape, extra in specs:
        cfg = dict(N=n, key=key, shape=shape)
        cfg.update(extra)
        tagx = (":disabled_earlier_stale_values" if extra.get("was_disabled") else ":already_active_stale_values") \
            if extra.get("stale_keys") else ""
        runs.append(Run(name=f"enable:{key}:N={n}:{'x'.join(map(str, shape))}{tagx}", harness=segstep.enable_harness,
                        cfg=cfg, replay=seg_replay.replay, need_tags=("enabled",),
                        bound=f"enable_features(['{key}']) at an arbitrary Inv-state: {n} node slots, array "
                              f"{'x'.join(map(str, shape))}"))
    return runs


def base_runs(prop, tier, which):
    from harness import step, step_replay

    n = 4 if tier == "quick" else 5
    runs = []
    if "construct" in which:
        runs.append(Run(f"construct:N={n}", step.construct_harness, dict(N=n, action="none"), step_replay.replay,
                        ("constructed", "witness:division"),
                        f"real SolutionTracks constructor on every forward binary forest with <= {n} nodes that "
                        f"carries no ids (shape decided by solver forks, symbolic times)"))
    if "from_tracks" in which:
        m = 3 if tier == "quick" else 4
        runs.append(Run(f"from_tracks:N={m}", step.from_tracks_harness, dict(N=m, action="none"), step_replay.replay,
                        ("recomputed", "ids_trusted", "edited"),
                        f"SolutionTracks.from_tracks on Tracks over every forest with <= {m} nodes, ids present on all "
                        f"nodes (any consistent labelling) or missing on one node; then one UserDeleteEdge"))
    if "query" in which:
        runs.append(Run(f"query:N={n}", step.query_harness, dict(N=n, action="none"), step_replay.replay,
                        ("neighbors", "has_track_at_time", "new_node_ids"),
                        f"track queries and id issuing from an arbitrary Inv-state on {n} node slots; track id and "
                        f"time arguments are unbounded integers"))
    return runs
