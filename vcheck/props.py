"""One entry point per property id."""
from __future__ import annotations

import json

from . import registry as R
from .core import run_property


G2_, G3_ = (2, 1, 2), (3, 1, 2)


def _nolineage_runs(prop, tier):
    """solutions whose feature registry has no lineage key (older saves): the lineage feature is absent"""
    from harness import step, step_replay
    from .core import Run

    n = 3 if tier == "quick" else 4
    return [Run(f"step:{a}:N={n}:no_lineage_feature", step.harness, dict(N=n, action=a, props=[prop], lineage=False),
                step_replay.replay, ("accepted",) if prop != "C11" else (),
                f"{n} node slots, solution without lineage feature")
            for a in ("UserAddEdge", "UserDeleteEdge", "UserDeleteNode", "UserAddNode", "UserSwapPredecessors")]


def _history_lemma(prop, tier):
    """undo / redo part of the 'after every accepted user action, undo or redo' properties (harness/history_real.py)"""
    from harness import history_real
    from .core import Run

    n = 5 if tier == "quick" else 7
    return [Run(f"history_lemma:len<={n}", history_real.harness, dict(length=n, for_prop=prop),
                history_real.replay_for(prop), ("completed",),
                f"every sequence over {{edit, undo, redo}} of length {n} on the real ActionHistory / Tracks.undo / redo "
                f"with abstract exactly-invertible edits: inverses are applied only in the post-state of their action, "
                f"so undo / redo revisit edit-produced states only (a failing sequence is instantiated with concrete "
                f"user actions on a real SolutionTracks and judged by this property's concrete oracle)")]


def _step(prop, tier, seed, actions, extra_assume=(), base=(), seg=(), extra_runs=()):
    runs = (list(extra_runs) + R.step_runs(prop, tier, actions) + R.base_runs(prop, tier, base)
            + R.seg_runs(prop, tier, list(seg)))
    if prop in ("C03", "C04", "C05", "C06"):
        runs += _history_lemma(prop, tier)
    if prop in ("C01", "C03", "C04", "C06", "C11"):
        runs += _nolineage_runs(prop, tier)
    return run_property(prop, tier, runs, explanation=R.EXPL,
                        assumptions=R.STEP_ASSUME + list(extra_assume) + (R.SEG_ASSUME if seg else []), seed=seed,
                        stubs=R.SEG_STUBS if seg else ["networkx.DiGraph -> SymDiGraph",
                                                       "TrackAnnotator lookups -> LazyIdMap"])


def _paint(tier, n_quick=2):
    return [("paint", n_quick, G2_, {})] if tier == "quick" else [("paint", 3, G2_, {}), ("paint", 2, G3_, {})]


def C03(tier, seed):
    return _step("C03", tier, seed, R.USER[:5], seg=_paint(tier))


def C04(tier, seed):
    return _step("C04", tier, seed, R.USER[:5] + ["UpdateTrackIDs"], base=("construct", "from_tracks"), seg=_paint(tier))


def C05(tier, seed):
    return _step("C05", tier, seed, R.USER[:5] + ["UpdateTrackIDs"], base=("construct", "from_tracks"),
                 seg=_paint(tier))


def C06(tier, seed):
    from harness import step, step_replay
    from .core import Run

    n = 3 if tier == "quick" else 4
    extra = [Run(f"step:{a}:N={n}:queries_after_edit_and_undo", step.harness,
                 dict(N=n, action=a, props=["C06"], followup=False, query_after=True), step_replay.replay, ("accepted",),
                 f"{n} node slots; get_track_neighbors / has_track_id_at_time with fresh unbounded arguments at the "
                 f"state after the edit and again after its undo (history-built states)")
             for a in (("UserAddNode", "UserDeleteNode", "UserDeleteEdge") if tier == "quick" else
                       ("UserAddNode", "UserDeleteNode", "UserAddEdge", "UserDeleteEdge"))]
    # bounded ids (0..3): changes that use ids / times as dict keys (memo tables) can be followed
    extra += [Run(f"step:{a}:N=2:queries_after_edit_and_undo:bounded_ids", step.harness,
                  dict(N=2, action=a, props=["C06"], followup=False, query_after=True, bounded=3), step_replay.replay,
                  ("accepted",), "2 node slots, every time / id / argument in 0..3; queries after the edit and after "
                                 "its undo")
              for a in (("UserAddNode",) if tier == "quick" else ("UserAddNode", "UserDeleteNode", "UserAddEdge"))]
    return _step("C06", tier, seed, R.USER, base=("construct", "query"), seg=_paint(tier), extra_runs=extra)


def C11(tier, seed):
    from harness import step, step_replay
    from .core import Run

    # scenario-directed: node 1 divides into 2 and 3, four cells per frame - a stroke can shrink BOTH daughters before
    # the nested add of a third child is refused (two sub-edits to roll back)
    division = dict(alive=[1, 1, 1], t=[0, 1, 1], edges=[(0, 1), (0, 2)])
    seg = [("paint", 3, G2_, {}), ("paint", 3, (2, 1, 4), {"fixed": division})] + (
        [] if tier == "quick" else [("paint", 3, G3_, {"iou": True}), ("UserAddNode", 3, G2_, {}),
                                    ("paint", 3, (2, 1, 4), {"fixed": division, "iou": True})])
    n = 3 if tier == "quick" else 4
    extra = [Run(f"step:UserAddNode:N={n}:per_axis_position", step.harness,
                 dict(N=n, action="UserAddNode", props=["C11"], multi_pos=True), step_replay.replay, (),
                 f"{n} node slots, position stored per axis (pos_attr=['y','x']); attribute shapes incl. a partial "
                 f"position")]
    runs = extra + R.step_runs("C11", tier, R.USER) + R.seg_runs("C11", tier, seg)
    return run_property("C11", tier, runs, explanation=R.EXPL, assumptions=R.STEP_ASSUME + R.SEG_ASSUME, seed=seed,
                        stubs=R.SEG_STUBS)


def C20(tier, seed):
    from harness import history
    from .core import Run

    n = 5 if tier == "quick" else 7
    runs = [Run(f"history_algebra:len<={n}", history.harness, dict(length=n), history.replay, ("completed",),
                f"undo/redo refresh counts over every op sequence of length {n}")]
    runs += R.step_runs("C20", tier, R.USER) + R.seg_runs("C20", tier, _paint(tier, 3))
    return run_property("C20", tier, runs, explanation=R.EXPL, assumptions=R.STEP_ASSUME + R.SEG_ASSUME, seed=seed,
                        stubs=R.SEG_STUBS)


def C01(tier, seed):
    if tier == "quick":
        seg = [("paint", 2, G2_, {}), ("UserDeleteNode", 2, G2_, {"all_rp": True, "scale": "sym"}),
               ("UserAddEdge", 3, G3_, {"iou": True})]
    else:
        seg = [("paint", 3, G2_, {"all_rp": True, "scale": "sym"}), ("paint", 2, G3_, {"iou": True}),
               ("paint", 2, (2, 1, 1, 2), {}), ("UserDeleteNode", 3, G3_, {"iou": True, "all_rp": True}),
               ("UserAddNode", 3, G2_, {"iou": True}), ("UserAddEdge", 4, G3_, {"iou": True}),
               ("UserSwapPredecessors", 4, G3_, {"iou": True})]
    from harness import step, step_replay
    from .core import Run

    n = 3 if tier == "quick" else 4
    extra = [Run(f"step:{a}:N={n}:per_axis_position", step.harness,
                 dict(N=n, action=a, props=["C01"], multi_pos=True), step_replay.replay, ("accepted",),
                 f"{n} node slots, position stored per axis (pos_attr=['y','x'])")
             for a in ("UserAddNode", "UserDeleteNode", "AddNode", "DeleteNode")]
    return _step("C01", tier, seed, R.USER + R.PRIMS, seg=seg, extra_runs=extra, extra_assume=[
        "primitive preconditions as documented: AddNode adds a new node, DeleteNode has no incident edges, "
        "UpdateTrackIDs does not reuse a tracklet id present in the start node's component"])


def C02(tier, seed):
    from harness import history
    from .core import Run

    n = 6 if tier == "quick" else 8
    runs = [Run(f"history_algebra:len<={n}", history.harness, dict(length=n), history.replay, ("completed",),
                f"every sequence over {{edit, undo, redo}} of length {n} (prefixes cover the shorter ones) on the real "
                f"ActionHistory / Tracks.undo / Tracks.redo, abstract exactly-invertible edits with symbolic payloads")]
    runs += R.step_runs("C02", tier, R.USER)
    runs += R.seg_runs("C02", tier, [("paint", 2 if tier == "quick" else 3, (2, 1, 2), {})])
    return run_property("C02", tier, runs, explanation=R.EXPL, seed=seed, assumptions=R.STEP_ASSUME + [
        "lemma (a): ActionHistory calls nothing but inverse(); behaviour on free generators transfers to every "
        "exactly-invertible action (C01); lemma (b): one successful top-level user action = exactly one history "
        "entry whose inverse is the C01-checked one"])


def C19(tier, seed):
    from harness import labels
    from .core import Run

    q = tier == "quick"
    runs = [
        Run("unique:T3xP2" if q else "unique:T4xP3", labels.unique_harness, dict(shape=(3, 2) if q else (4, 3)),
            labels.unique_replay, ("returned", "witness:two_frames_labelled"),
            "label array of %s cells, labels arbitrary non-negative integers" % ("3x2" if q else "4x3")),
        Run("unique:multiseg:2x2x2", labels.unique_harness, dict(shape=(2, 2, 2), multiseg=True),
            labels.unique_replay, ("returned",), "2 hypotheses x 2 frames x 2 cells, labels arbitrary integers >= 0"),
        Run("bytrack:N=%d" % (3 if q else 4), labels.bytrack_harness,
            dict(N=3 if q else 4, T=3, P=2 if q else 3), labels.bytrack_replay,
            ("returned", "witness:division_present"),
            "solution forest on <= %d detections over 3 frames (all shapes), %d cells per frame, cell labels and "
            "seg ids arbitrary integers" % ((3, 2) if q else (4, 3))),
    ]
    runs += [
        Run("unique:multiseg:2x2x2:%s" % lay, labels.unique_harness, dict(shape=(2, 2, 2), multiseg=True, layout=lay),
            labels.unique_replay, ("returned",), "as above, the input a NON-contiguous array (%s): numpy's reshape / "
            "astype view-or-copy behaviour is carried by the model's cell array" % what)
        for lay, what in (("moveaxis01", "np.moveaxis view of a time-major stack"), ("F", "Fortran order"))]
    runs += [
        Run("unique:uint8:T3xP2", labels.unique_harness, dict(shape=(3, 2), dtype="uint8"), labels.unique_replay,
            ("returned", "witness:two_frames_labelled"),
            "uint8 label array (cells 0..255): 8/16/32-bit integer arrays wrap around in the model as in numpy, so a "
            "result computed in the input's narrow dtype is seen to collide"),
        Run("unique:bounded_labels:2x2", labels.unique_harness, dict(shape=(2, 2) if q else (3, 2), max_label=2),
            labels.unique_replay, ("returned",), "cell labels 0..2: unmodelled numpy calls are followed by realising "
            "the array (case split over cell values) instead of ending inconclusive"),
        Run("bytrack:bounded_labels", labels.bytrack_harness, dict(N=2 if q else 3, T=2, P=2, max_label=2),
            labels.bytrack_replay, ("returned",), "forest on <= 2 (3) detections, 2x2 cells, labels and seg ids 0..2"),
    ]
    return run_property("C19", tier, runs, explanation=R.EXPL, seed=seed, assumptions=[
        "labels are non-negative integers of the array's dtype; arithmetic and stores in 8/16/32-bit integer arrays wrap "
        "around as in numpy, 64-bit arithmetic is mathematical (uint64 wrap-around outside the claim)",
        "detections of the solution graph are distinct (time, seg_id) pairs with time inside the array",
        "SArr model conforms to numpy for the operations used (self-test)"],
        stubs=["numpy ndarray -> SArr (symbolic cells)"])


def C12(tier, seed):
    from harness import importer
    from .core import Run

    q = tier == "quick"
    # the DataFrame model against real pandas, on the importer's own load_source (a disagreement makes THIS check
    # inconclusive; it is not part of the global set-up because a change to load_source may use pandas API that the
    # model does not have)
    import random

    from sx import rt as _rt
    from sx.selftest import frame_conformance

    _rt.set_cur(_rt.Ctx())
    try:
        n_cmp, err = frame_conformance(random.Random(20261001 + seed))
    except Exception as e:  # noqa: BLE001
        n_cmp, err = 0, f"{type(e).__name__}: {e}"
    finally:
        _rt.set_cur(None)
    model_note = f"DataFrame model vs real pandas on load_source: {n_cmp} concrete tables compared" + (
        f", DISAGREEMENT: {err}" if err else ", all agree")
    print("C12 " + model_note)
    ids3 = [3, 1, 7] if q else [3, 1, 7, 12]
    m3 = 2 if q else 3
    ids5 = [3, 1, 7] if q else [8, 3, 1, 7, 12]
    nm = {"time": "t", "pos": ["y", "x"]}
    cols = {"t": "int", "y": "real", "x": "real"}
    G = [
        ("renamed+custom", dict(ids=ids3, M=m3, columns=dict(cols, c="int"), name_map=dict(nm, c="c"))),
        ("legacy_yx_keys+column_named_time", dict(ids=[3, 1, 7], M=2,
                                                   columns={"t": "int", "row": "real", "col": "real", "time": "int"},
                                                   name_map={"time": "t", "y": "row", "x": "col", "custom": "time"})),
        ("3d", dict(ids=[5, 2], M=1, columns={"frame": "int", "z": "real", "y": "real", "x": "real"},
                    name_map={"time": "frame", "pos": ["z", "y", "x"]})),
        ("stacked_position+loaded_feature", dict(ids=[5, 2], M=1,
                                                  columns={"frame": "int", "position": "vec2", "area": "real"},
                                                  name_map={"time": "frame", "pos": "position", "area": "area"},
                                                  node_features={"area": False})),
        ("swapped_axes+edge_property", dict(ids=[4, 9, 6], M=2, columns=cols, name_map={"time": "t", "pos": ["x", "y"]},
                                            edge_columns={"overlap": "real"}, edge_name_map={"iou": "overlap"})),
        ("sparse_custom_properties", dict(ids=[3, 1], M=1, columns=dict(cols, c="int", u="real", v="real"),
                                          name_map=dict(nm, c="c", uv=["u", "v"]), sparse=("c", "v"))),
        # the components of a combined property have different dtypes (an integer plane index next to real coordinates)
        ("mixed_dtype_position", dict(ids=[3, 1], M=1, columns={"t": "int", "y": "int", "x": "real"}, name_map=nm)),
        ("duplicate_ids", dict(ids=[3, 3, 7], M=1, columns=cols, name_map=nm)),
        ("no_time_mapping", dict(ids=[3, 1], M=1, columns=cols, name_map={"pos": ["y", "x"]},
                                 expect_missing_required=True)),
        ("no_position_mapping", dict(ids=[3, 1], M=1, columns=cols, name_map={"time": "t"},
                                     expect_missing_required=True)),
        ("mapping_to_missing_column", dict(ids=[3, 1], M=1, columns=cols, name_map={"time": "t", "pos": ["y", "q"]},
                                           expect_missing_required=True)),
    ]
    ccols = {"id": "id", "parent_id": "parent", "t": "int", "y": "real", "x": "real"}
    cnm = {"id": "id", "parent_id": "parent_id", "time": "t", "pos": ["y", "x"]}
    Cv = [
        ("integer_ids+custom", dict(ids=ids5, columns=dict(ccols, c="int"), name_map=dict(cnm, c="c"))),
        ("string_ids", dict(ids=["b", "a", "c"] if q else ["b", "a", "c", "10"], columns=ccols, name_map=cnm)),
        ("id_zero+column_named_time", dict(ids=[0, 5, 2], columns={"id": "id", "parent_id": "parent", "t": "int",
                                                                  "y": "real", "x": "real", "time": "int"},
                                           name_map=dict(cnm, custom="time"))),
        ("renamed_id_columns:3d", dict(ids=[4, 2], columns={"node": "id", "mother": "parent", "frame": "int", "z": "real",
                                                            "y": "real", "x": "real"},
                                       name_map={"id": "node", "parent_id": "mother", "time": "frame",
                                                 "pos": ["z", "y", "x"]})),
        ("swapped_axes", dict(ids=[4, 2], columns=ccols, name_map=dict(cnm, pos=["x", "y"]))),
        # a text-valued custom column (cells over a small vocabulary that contains the empty string)
        ("text_custom_column", dict(ids=[4, 2], columns=dict(ccols, note="str"), name_map=dict(cnm, note="note"))),
        # row labels of the DataFrame are not 0..n-1 (a sorted / filtered table): pandas aligns on labels
        ("permuted_row_labels+custom", dict(ids=[4, 2, 7], columns=dict(ccols, c="int"), name_map=dict(cnm, c="c"),
                                           index=[2, 0, 1])),
        ("filtered_row_labels+loaded_feature", dict(ids=[4, 2], columns=dict(ccols, area="real"), name_map=cnm,
                                                    index=[5, 1], features={"Area": "area"})),
        ("duplicate_ids", dict(ids=[3, 3, 7], columns=ccols, name_map=cnm)),
        ("duplicate_string_ids", dict(ids=["a", "a"], columns=ccols, name_map=cnm)),
        ("no_time_mapping", dict(ids=[3, 1], columns=ccols, name_map={k: v for k, v in cnm.items() if k != "time"},
                                 expect_missing_required=True)),
        ("no_id_mapping", dict(ids=[3, 1], columns=ccols, name_map={k: v for k, v in cnm.items() if k != "id"},
                               expect_missing_required=True)),
    ]
    FB12 = ("C12.malformed_source_rejected_with_ValueError", "C12.wellformed_source_accepted",
            "C12.nodes_are_the_source_ids", "C12.edges_are_the_source_links",
            "C12.mapped_values_equal_source_in_mapped_order", "C12.time_and_position_readable")
    runs = []
    for name, cfg in G:
        tags = ("malformed",) if name == "duplicate_ids" else (
            ("missing_required",) if cfg.get("expect_missing_required") else ("imported", "malformed"))
        runs.append(Run("import:geff:" + name, importer.geff_harness, cfg, importer.geff_replay, tags,
                        "store with row ids %s, every set of <= %d links with endpoints over the row ids and one unknown "
                        "id (duplicates, self links, dangling links included); every cell of every property column an "
                        "unconstrained integer / real" % (cfg["ids"], cfg.get("M", 2)), fallback_obligations=FB12))
    for name, cfg in Cv:  # (run even if the model conformance failed: a violation found is replayed on real pandas)
        tags = ("malformed",) if (name.startswith("duplicate") or cfg.get("expect_missing_required")) else (
            "imported", "malformed")
        runs.append(Run("import:csv:" + name, importer.csv_harness, cfg, importer.csv_replay, tags,
                        "table with row ids %s, every row's parent over {each row id, an unknown id, missing, -1 / ''}; "
                        "every other cell an unconstrained integer / real" % (cfg["ids"],), fallback_obligations=FB12))
    code = run_property("C12", tier, runs, explanation=R.EXPL, seed=seed, extra=dict(
        dataframe_model_conformance=model_note), assumptions=[
        "row ids, link endpoints, column names and the key mapping are concrete per run or decided by engine forks over "
        "the stated finite sets (ids and links are dict keys / numpy id arrays inside the importer); the cell VALUES of "
        "time, coordinates and custom properties are unconstrained symbolic integers / reals",
        "GEFF route: geff_spec.GeffMetadata.read and geff read_to_memory are I/O stubs returning the symbolic store "
        "restricted to the requested properties (contract of read_to_memory's node_props / edge_props filter); the "
        "structural validators and geff.construct (networkx backend) are the REAL geff functions",
        "CSV route: the DataFrame is a cell-wise model (harness/importer.py:_Frame) of the pandas API subset used by "
        "CSVTracksBuilder.load_source; its agreement with real pandas is checked on concrete tables by the self-test; CSV "
        "TEXT parsing (pd.read_csv) and zarr decoding are outside the claim; every counterexample is replayed "
        "through real pandas / a real GEFF store on disk",
        "no segmentation (relabelling is C13), no track_id / lineage_id columns in the source (C14 territory), "
        "auto-inferred key mapping is C17"],
        stubs=["geff read_to_memory / GeffMetadata.read -> symbolic store", "pandas DataFrame -> _Frame model",
               "infer_dtype_from_array -> declared dtype of the symbolic column"])
    if err and code == 0:
        print("INCONCLUSIVE property=C12: the DataFrame model disagrees with real pandas on the current load_source; the "
              "CSV route's passes are not believed")
        return 3
    return code


def C14(tier, seed):
    from harness import roundtrip
    from .core import Run

    n = 3 if tier == "quick" else 4
    variants = [("", {}), (":per_axis_pos", dict(multi_pos=True)), (":3D", dict(shape=(3, 1, 1, 1))),
                (":scale_given", dict(scale="given")), (":descending_node_order", dict(node_order="reversed")),
                # first coordinate a Python int on every node (plane index): exported columns of different dtypes
                (":integer_first_axis", dict(int_first_axis=True)),
                # a registered custom node feature, loaded on import (not recomputed); CSV: display-name headers
                (":custom_feature", dict(custom=True, display_names=True))]
    runs = []
    for route, h in (("geff", roundtrip.geff_harness), ("csv", roundtrip.csv_harness)):
        for name, extra in variants:
            if route == "csv" and name == ":scale_given":
                continue
            m = n if (name == "" and route == "csv") else 3  # (GEFF carries lineage ids too: 4 slots take > 1 h)
            cfg = dict(N=m, op=route, select=False)
            cfg.update(extra)
            runs.append(Run(f"roundtrip:{route}{name}:N={m}", h, cfg, roundtrip.replay, ("roundtrip",),
                            f"every valid solution on <= {m} node slots (forest shape, times, track and lineage ids "
                            f"symbolic; ids 1..{m + 1}), coordinates arbitrary reals; full export, then import with the "
                            f"key mapping that corresponds to what the exporter wrote",
                            fallback_obligations=("C14.reimport_accepted", "C14.same_nodes", "C14.same_edges",
                                                  "C14.same_times", "C14.same_positions", "C14.same_track_ids",
                                                  "C14.same_loaded_features")))
    INT_OBL = ("C14.reimport_accepted", "C14.same_nodes", "C14.same_edges", "C14.same_times", "C14.same_positions",
               "C14.same_track_ids", "C14.same_lineage_ids", "C14.same_segmentation", "C14.same_scale",
               "C14.same_registry", "C14.same_loaded_features", "C14.same_loaded_edge_features")
    ivariants = [("", dict(seg=False)), (":per_axis_pos", dict(seg=False, multi_pos=True)),
                 (":numpy_positions", dict(seg=False, pos_ndarray=True)),
                 (":symbolic_scale", dict(seg=False, scale="symbolic", N=2)),
                 (":descending_node_order", dict(seg=False, node_order="reversed")),
                 (":via_save_load_methods", dict(seg=True, shape=(2, 1, 2), N=2, entry="methods")),
                 (":seg", dict(seg=True, shape=(2, 1, 2), N=2, pos_ndarray=True)),
                 (":seg:iou_enabled", dict(seg=True, shape=(3, 1, 1), N=3, iou=True)),
                 (":seg:symbolic_scale:uint8", dict(seg=True, shape=(2, 1, 2), N=2, scale="symbolic", seg_dtype="uint8")),
                 (":3D:numpy_positions", dict(seg=False, shape=(3, 1, 1, 1), pos_ndarray=True, N=2 if tier == "quick" else 3))]
    for name, extra in ivariants:
        cfg = dict(N=3, op="internal", select=False)
        cfg.update(extra)
        runs.append(Run(f"roundtrip:internal{name}:N={cfg['N']}", roundtrip.internal_harness, cfg, roundtrip.replay,
                        ("roundtrip",),
                        f"every valid solution on <= {cfg['N']} node slots (forest shape, times, ids symbolic), coordinates "
                        f"and loaded measurements arbitrary reals, label array cells symbolic; save_tracks then "
                        f"load_tracks(solution=True) through an ideal directory", fallback_obligations=INT_OBL))
    for name, cfg in ((":N=2:2x1x3", dict(N=2, shape=(2, 1, 3))),) + (
            () if tier == "quick" else ((":N=3:2x1x3", dict(N=3, shape=(2, 1, 3))),)):
        cfg = dict(cfg, op="geff_seg", select=False)
        runs.append(Run("roundtrip:geff_with_segmentation" + name, roundtrip.geff_seg_harness, cfg, roundtrip.replay,
                        ("roundtrip", "witness:last_node_not_convex"),
                        "every valid solution with a label array of the stated shape (labels realised by solver forks; "
                        "positions / areas = true centroids / pixel counts of the masks), full GEFF export with "
                        "segmentation, import with the exported segmentation",
                        fallback_obligations=("C14.reimport_accepted", "C14.same_segmentation")))
    return run_property("C14", tier, runs, explanation=R.EXPL, seed=seed, assumptions=EXPORT_ASSUME + [
        "IDEAL STORE between the two halves: geff.write followed by read_to_memory returns the node ids, edges and one "
        "value array per attribute of the written graph (absent attribute = missing); DataFrame.to_csv followed by "
        "read_csv returns the same table with empty fields as missing values.  What zarr / geff / pandas really do "
        "with the values (dtypes, text formatting) is outside the claim; counterexamples are replayed through the "
        "real files",
        "IDEAL DIRECTORY for the internal format: json.load after json.dump returns the dumped value with dict keys "
        "as strings and tuples as lists, numbers unchanged, any non-JSON object refused with TypeError; np.load after "
        "np.save returns an equal array of the same dtype (float formatting, NaN, pickling outside)",
        "claimed: nodes, edges, times, positions, track ids after GEFF and CSV round trips of tracks without "
        "segmentation; internal format: additionally lineage ids, loaded measurements (area), segmentation cells and "
        "dtype, scale (symbolic voxel sizes) and the feature registry.  A registered custom node feature is followed through GEFF "
        "(node_features = load) and through a display-name CSV.  GEFF with segmentation: the label array is realised by "
        "solver-guided forks (positions = true centroids of the masks), load_segmentation / read_dims are I/O stubs, "
        "geff's has_seg_ids_at_coords a contract stub.  NOT claimed: subset exports, segmentation-derived features "
        "loaded through CSV"],
        stubs=EXPORT_STUBS + ["geff read_to_memory / GeffMetadata.read -> ideal store", "pandas DataFrame -> _Frame model"])


def C13(tier, seed):
    from harness import relabel
    from .core import Run

    q = tier == "quick"
    M, T, P = (3, 2, 3) if q else (3, 3, 3)
    b = "<=%d nodes (ids 0..4 distinct, seg ids 1..3 distinct per frame, all assignments), %d frames x %d cells, " \
        "cell labels arbitrary integers >= 0" % (M, T, P)
    runs = [
        Run("relabel_segmentation", relabel.harness, dict(T=T, P=P, M=M), relabel.replay,
            ("relabelled", "shifted", "unshifted"), b),
        Run("handle_segmentation", relabel.harness, dict(T=T, P=P, M=2 if q else 3, via_builder=True), relabel.replay,
            ("relabelled", "shortcut"), b.replace("<=%d" % M, "<=%d" % (2 if q else 3))),
        Run("handle_segmentation:positions_loaded", relabel.harness,
            dict(T=T, P=2 if q else 3, M=2 if q else 3, via_builder=True, with_pos=True), relabel.replay,
            ("relabelled", "shortcut"),
            "as above, the nodes also carry a loaded position (any pixel of their own mask): the importer validates "
            "the graph against the segmentation first (geff has_seg_ids_at_coords = contract stub)"),
        Run("relabel_segmentation:uint8_array:ids_254..258", relabel.harness,
            dict(T=2, P=2, M=2, dtype="uint8", idlo=254, idmax=4), relabel.replay, ("relabelled",),
            "uint8 label array (cells 0..255), node ids 254..258: 8/16/32-bit arrays wrap around in the model as in "
            "numpy, so an output kept in the input's narrow dtype is seen to lose ids >= 256"),
        Run("relabel_segmentation:bounded_labels", relabel.harness,
            dict(T=2, P=2, M=2, max_label=2, idmax=2, segmax=2) if q else dict(T=2, P=2, M=2, max_label=3, idmax=3,
                                                                               segmax=3),
            relabel.replay, ("relabelled",),
            "<=2 nodes, 2x2 cells, cell labels 0..2 (thorough 0..3): a numpy call outside the modelled "
            "API is followed by realising the array (case split over cell values) instead of ending inconclusive"),
    ]
    return run_property("C13", tier, runs, explanation=R.EXPL, seed=seed, assumptions=[
        "node ids, seg ids and times are dict keys inside the function: drawn from small stated ranges and "
        "enumerated by solver-guided forks; the cell labels are unconstrained symbolic integers",
        "load_segmentation is the identity on an in-memory array (dask wrapping cut); validate_graph_seg_match not "
        "reached (no position on the graph)",
        "labels are mathematical integers (uint64 wrap-around outside the claim)"],
        stubs=["load_segmentation -> identity", "numpy ndarray -> SArr"])


def _seg(prop, tier, seed, specs, enable=(), extra_runs=(), extra_assume=()):
    runs = list(extra_runs) + R.seg_runs(prop, tier, specs) + R.enable_runs(prop, tier, enable)
    if prop in ("C07", "C08", "C09"):
        runs += _history_lemma(prop, tier)
    return run_property(prop, tier, runs, explanation=R.EXPL, seed=seed,
                        assumptions=R.STEP_ASSUME + R.SEG_ASSUME + list(extra_assume), stubs=R.SEG_STUBS)


G2, G3, G3D = (2, 1, 2), (3, 1, 2), (2, 1, 1, 2)


def C07(tier, seed):
    if tier == "quick":
        # (2,1,3): three cells per frame - a node can consist of two parts that are not adjacent
        # (2,2,1,1): 3D+t with TWO z-planes (a node can span planes); (2,1,1,2) is in the thorough tier
        # (2,3,1,1): THREE z-planes - a 3D mask can have a gap along z
        specs = [("paint", 2, G2, {}), ("paint", 2, (2, 2, 1, 1), {}), ("paint", 1, (2, 1, 3), {}),
                 ("paint", 1, (2, 3, 1, 1), {}), ("UserDeleteNode", 1, (2, 3, 1, 1), {}),
                 ("UserDeleteNode", 2, G2, {}), ("UserAddNode", 2, G2, {})]
    else:
        specs = [("paint", 3, G2, {}), ("paint", 2, G3, {}), ("paint", 2, G3D, {}), ("paint", 2, (2, 2, 1, 1), {}),
                 ("paint", 2, (2, 1, 4), {}), ("paint", 2, (2, 3, 1, 1), {}), ("UserDeleteNode", 2, (2, 3, 1, 1), {}),
                 ("paint", 2, (2, 2, 2), {}), ("UserDeleteNode", 3, G3, {}),
                 ("UserAddNode", 3, G2, {}), ("UserAddNode", 2, G3D, {})]
    return _seg("C07", tier, seed, specs)


def C08(tier, seed):
    a = {"all_rp": True, "scale": "iso"}  # (perimeter: isotropic spacing only, see segstep)
    b = {"scale": "aniso"}  # (skimage perimeter supports isotropic spacing only: core features here)
    W3 = (2, 1, 3)  # three cells per frame: a mask can start away from the border
    if tier == "quick":
        specs = [("paint", 2, W3, b), ("UserAddNode", 2, G2, {"scale": "sym"}), ("UserDeleteNode", 2, G2, a),
                 # a feature enabled BETWEEN an edit and its undo
                 ("paint", 2, G2, {"scale": "iso", "enable_mid": "ellipse_axis_radii"})]
        en = [(k, 2, G2, {"scale": "iso"}) for k in ("ellipse_axis_radii", "circularity", "perimeter")]
        # switched off earlier, values stale (arbitrary), switched on again
        en += [("area", 2, G2, {"stale_keys": ["area"], "was_disabled": True, "scale": "sym"}),
               ("ellipse_axis_radii", 2, G2, {"all_rp": True, "stale_keys": ["ellipse_axis_radii"], "was_disabled": True,
                                              "scale": "iso"})]
    else:
        specs = [("paint", 3, G2, a), ("paint", 2, G3, {"scale": "none", "all_rp": True}), ("paint", 2, G3D, a),
                 ("paint", 2, W3, b), ("paint", 2, (2, 1, 4), {"scale": "aniso"}),
                 ("UserAddNode", 3, G2, a), ("UserAddNode", 2, W3, b), ("UserDeleteNode", 3, G3, a)]
        specs += [("paint", 3, G2, {"scale": "iso", "enable_mid": "ellipse_axis_radii"}),
                  ("UserDeleteNode", 2, G2, {"scale": "iso", "enable_mid": "ellipse_axis_radii"}),
                  ("UserAddNode", 2, G2, {"scale": "iso", "enable_mid": "ellipse_axis_radii"})]
        en = [(k, 3, G3, {"scale": "iso"}) for k in ("ellipse_axis_radii", "circularity", "perimeter")]
        en += [(k, 3, G2, {"all_rp": True, "stale_keys": [k], "was_disabled": True, "scale": "iso"})
               for k in ("area", "pos", "ellipse_axis_radii", "circularity", "perimeter")]
    from harness import kernels
    from .core import Run

    kr = [Run("kernel:regionprops_extended:%s" % ("2x3" if tier == "quick" else "2x2x2"), kernels.rp_harness,
              dict(shape=(2, 3) if tier == "quick" else (2, 2, 2), labels=2), kernels.rp_replay, ("kernel_ran",),
              "the real regionprops_extended on EVERY label frame of the stated size with labels 0..2 (realised), four "
              "spacings: area = pixel count x voxel size, centroid = scaled mean coordinate, independent of other labels")]
    return _seg("C08", tier, seed, specs, en, extra_runs=kr)


def C09(tier, seed):
    a = {"iou": True}
    if tier == "quick":
        # three slots on two frames: a repainted node can be a dividing parent (two edges into one frame)
        # paint on three frames: the repainted node can be an endpoint of a frame-skipping edge
        specs = [("paint", 3, G2, a), ("paint", 2, G3, a), ("UserAddEdge", 3, G3, a), ("UserDeleteNode", 3, G3, a),
                 ("UserSwapPredecessors", 3, G3, a), ("paint", 2, G2, {"enable_mid": "iou"})]
        en = [("iou", 3, G3, {}), ("iou", 3, G3, {"iou": True, "stale_keys": ["iou"]}),
              ("iou", 3, G3, {"iou": True, "stale_keys": ["iou"], "was_disabled": True})]
    else:
        specs = [("paint", 3, G3, a), ("paint", 2, G3D, a), ("UserAddEdge", 4, G3, a), ("UserDeleteNode", 4, G3, a),
                 ("UserSwapPredecessors", 4, G3, a), ("UserAddNode", 3, G3, a), ("paint", 2, G3, {"enable_mid": "iou"}),
                 ("UserDeleteEdge", 3, G3, {"enable_mid": "iou"}), ("UserAddEdge", 3, G3, {"enable_mid": "iou"})]
        en = [("iou", 4, G3, {}), ("iou", 3, (4, 1, 2), {}), ("iou", 4, G3, {"iou": True, "stale_keys": ["iou"]}),
              ("iou", 4, G3, {"iou": True, "stale_keys": ["iou"], "was_disabled": True})]
    from harness import kernels
    from .core import Run

    kr = [Run("kernel:_compute_ious:%s" % ("1x3" if tier == "quick" else "2x2"), kernels.ious_harness,
              dict(which="annotators", shape=(1, 3) if tier == "quick" else (2, 2), labels=2 if tier == "quick" else 3),
              kernels.ious_replay, ("kernel_ran",),
              "the real annotators._compute_ious on EVERY pair of label frames of the stated size (realised): pairs and "
              "values equal |A&B| / |A|B| of the overlapping labels"),
          Run("kernel:_compute_ious:uint8:large_labels", kernels.ious_harness,
              dict(which="annotators", shape=(1, 2), dtype="uint8", label_set=[0, 16, 32, 255]),
              kernels.ious_replay, ("kernel_ran",),
              "uint8 frames of 2 cells with labels from {0, 16, 32, 255}: arithmetic on labels of a narrow dtype "
              "wraps around (16*32 = 0 mod 256, 255+1 = 0)")]
    return _seg("C09", tier, seed, specs, en, extra_runs=kr)


def _export_runs(prop, tier, ops):
    from harness import export, export_replay
    from .core import Run

    n = 3 if tier == "quick" else 4
    runs = []
    for name, cfg in ops:
        c = dict(N=n, props=[prop])
        c.update(cfg)
        if tier != "quick" and c.get("seg", True) and "shape" not in cfg:
            c["shape"] = (4, 1, 1) if c.get("op") == "csv" else (3, 1, 2)
        fb = ("C16.graph_unchanged", "C16.attrs_unchanged", "C16.lookups_unchanged", "C16.history_unchanged",
              "C16.registry_unchanged", "C16.scale_unchanged", "C16.segmentation_unchanged") if prop == "C16" else (
            "C15.nodes_exact", "C15.edges_exact", "C15.no_missing_parent", "C15.segmentation_masks_exact")
        runs.append(Run(f"export:{name}:N={c['N']}", export.harness, c, export_replay.replay,
                        ("exported", "witness:chain_of_three") if c["N"] >= 3 else ("exported",), f"solution forest on <= {n} node slots (all shapes, symbolic times/ids), every "
                        f"subset of its nodes as selection, label array with arbitrary non-negative symbolic labels",
                        fallback_obligations=fb))
    return runs


EXPORT_ASSUME = [
    "I/O boundary: setup_zarr_group/array, geff.write, pandas.DataFrame/to_csv, tifffile.imwrite, skimage map_array, "
    "open/json.dump/np.save capture their arguments; what pandas/geff/zarr do with the captured values is out of reach "
    "(a counterexample is replayed end to end through the real writers and read back)",
    "pre-state: forward binary forest with symbolic times and ids; node positions concrete floats",
]
EXPORT_STUBS = ["zarr/geff/pandas/tifffile/map_array/json/np.save -> capturing stubs", "networkx.DiGraph -> SymDiGraph "
                "(networkx's own ancestors/subgraph/copy run on it)", "numpy ndarray -> SArr"]


def C15(tier, seed):
    ops = [("geff", dict(op="geff")), ("geff:bounded_labels", dict(op="geff", max_label=4, shape=(3, 1, 1))),
           ("csv", dict(op="csv")), ("csv:display", dict(op="csv", display_names=True)),
           ("csv:export_seg", dict(op="csv", export_seg=True)), ("geff:noseg", dict(op="geff", seg=False)),
           ("geff:3D", dict(op="geff", shape=(3, 1, 1, 1))), ("csv:3D", dict(op="csv", shape=(3, 1, 1, 1))),
           ("csv:noseg:per_axis_pos", dict(op="csv", seg=False, multi_pos=True)),
           # more frames than one chunk (64) of the exporter's chunk-wise masking loop
           ("geff:65_frames", dict(op="geff", shape=(65, 1, 1), N=2))]
    return run_property("C15", tier, _export_runs("C15", tier, ops), explanation=R.EXPL, seed=seed,
                        assumptions=EXPORT_ASSUME, stubs=EXPORT_STUBS)


def C16(tier, seed):
    ops = [("geff", dict(op="geff")), ("geff:full", dict(op="geff", select=False)),
           ("geff:scale_given", dict(op="geff", scale="given")),
           ("geff:3D:scale_given", dict(op="geff", scale="given", shape=(3, 1, 1, 1))),
           ("geff:noseg:per_axis_pos", dict(op="geff", seg=False, multi_pos=True)),
           ("csv", dict(op="csv")), ("csv:full:display", dict(op="csv", select=False, display_names=True)),
           ("csv:noseg:per_axis_pos:display", dict(op="csv", seg=False, multi_pos=True, display_names=True)),
           ("csv:export_seg", dict(op="csv", export_seg=True)),
           # the label array already has the dtype the exporter would choose for the relabelled copy
           ("csv:export_seg:uint8_array", dict(op="csv", export_seg=True, seg_dtype="uint8", N=2)),
           ("geff:uint8_array", dict(op="geff", seg_dtype="uint8", N=2)),
           ("save", dict(op="save", select=False)),
           ("save:noseg", dict(op="save", select=False, seg=False, scale="given")),
           ("queries", dict(op="queries", select=False)), ("queries:noseg", dict(op="queries", select=False, seg=False)),
           ("queries:noseg:per_axis_pos", dict(op="queries", select=False, seg=False, multi_pos=True)),
           ("save:noseg:per_axis_pos", dict(op="save", select=False, seg=False, multi_pos=True))]
    return run_property("C16", tier, _export_runs("C16", tier, ops), explanation=R.EXPL, seed=seed,
                        assumptions=EXPORT_ASSUME, stubs=EXPORT_STUBS)


def C18(tier, seed):
    from harness import candgraph
    from .core import Run

    q = tier == "quick"
    runs = [
        Run("points:M=3", candgraph.points_harness, dict(M=3, frames=4),
            candgraph.points_replay, ("built", "witness:frame_gap"),
            "3 detections, each in any of 4 frames (empty frames and gaps included), 2-D positions and maximum "
            "distance arbitrary reals (non-linear real arithmetic)"),
        Run("points:scaled:M=%d" % (2 if q else 3), candgraph.points_harness,
            dict(M=2 if q else 3, frames=3, scale="sym"), candgraph.points_replay, ("built",),
            "%d detections in 3 frames, symbolic anisotropic scale (time factor 1)" % (2 if q else 3)),
        Run("points:no_frame_dict:M=3", candgraph.points_harness, dict(M=3, frames=4, dims=1, no_frame_dict=True),
            candgraph.points_replay, ("built", "witness:frame_gap"),
            "nodes_from_points_list + add_cand_edges without a frame dictionary (recomputed from the graph)"),
        Run("seg:unit_scale:3x1x2", candgraph.seg_harness, dict(shape=(3, 1, 2), labels=3, scale="none"),
            candgraph.seg_replay, ("built",), "label array 3x1x2, scale=None"),
        Run("points1d:M=%d" % (4 if q else 5), candgraph.points_harness, dict(M=4 if q else 5, frames=4, dims=1),
            candgraph.points_replay, ("built", "witness:frame_gap"),
            "%d detections in 4 frames, 1-D positions (|a-b| <= r is linear: one more detection is affordable)"
            % (4 if q else 5)),
        Run("seg:%s" % ("3x1x2" if q else "3x1x3"), candgraph.seg_harness,
            dict(shape=(3, 1, 2) if q else (3, 1, 3), labels=3, scale="sym"), candgraph.seg_replay,
            ("built", "witness:empty_middle_frame"),
            "label array 3 frames x %d cells, labels 0..3 unique across time, symbolic spacing and distance"
            % (2 if q else 3)),
    ]
    runs.append(Run("points1d:many:M=9", candgraph.points_harness,
                    dict(M=9, frames=3, dims=1, fixed_t=[0, 0, 0, 1, 1, 1, 2, 2, 2], far=(0, 1, 2)),
                    candgraph.points_replay, ("built",),
                    "9 detections in a concrete layout of 3 frames x 3 (node ids up to 8: Python set-order and "
                    "'fewer than half of the nodes' effects), frame 0 at concrete far positions, the six others "
                    "symbolic in [0,10], r <= 20, 1-D"))
    from harness import kernels

    runs.append(Run("kernel:_compute_ious:%s" % ("1x3" if q else "2x2"), kernels.ious_harness,
                    dict(which="candidate_graph", shape=(1, 3) if q else (2, 2), labels=2 if q else 3, prop="C18"),
                    kernels.ious_replay, ("kernel_ran",),
                    "the real candidate_graph.iou._compute_ious on EVERY pair of label frames of the stated size "
                    "(realised): pairs and values equal the definition"))
    runs.append(Run("kernel:_compute_ious:uint8:large_labels", kernels.ious_harness,
                    dict(which="candidate_graph", shape=(1, 2), dtype="uint8", label_set=[0, 16, 32, 255], prop="C18"),
                    kernels.ious_replay, ("kernel_ran",),
                    "uint8 frames of 2 cells with labels from {0, 16, 32, 255}: arithmetic on labels of a narrow "
                    "dtype wraps around (16*32 = 0 mod 256, 255+1 = 0)"))
    if not q:
        runs.append(Run("points3d:M=3", candgraph.points_harness, dict(M=3, frames=3, dims=3),
                        candgraph.points_replay, ("built",), "3 detections in 3 frames, 3 spatial dimensions"))
    return run_property("C18", tier, runs, explanation=R.EXPL, seed=seed, assumptions=[
        "scipy KDTree.query_ball_tree is a contract stub: indices j with sum (a-b)^2 <= r^2 (closed ball, p=2); the "
        "real tree's boundary/rounding behaviour is out of reach",
        "skimage regionprops is a contract stub (one region per label present; area/centroid uninterpreted functions "
        "of the mask bits and spacing); candidate_graph.iou._compute_ious is a contract stub",
        "points list: scale=None (scaling is one numpy multiplication); segmentation labels unique across time "
        "(documented precondition)"],
        stubs=["KDTree", "skimage.measure.regionprops", "_compute_ious", "tqdm"])


def C17(tier, seed):
    from harness import names
    from .core import Run

    q = tier == "quick"
    n_cases, bad = names.validate_instrumentation(seed)
    if bad:
        print(f"INCONCLUSIVE property=C17: AST pass changes behaviour on {len(bad)} of {n_cases} concrete inputs, "
              f"first: {bad[0]}")
        return 3
    CSV = ["time", "id", "parent_id"]
    runs = []
    LP = 2 if q else 3
    for name, cfg in [("node:req=time:ndim=3", dict(L=LP)), ("node:req=csv:ndim=4", dict(L=2, required=CSV, ndim=4)),
                      ("edge", dict(L=LP, edge=True))] + ([] if q else [("node:req=csv:ndim=3", dict(L=3, required=CSV))]):
        runs.append(Run(f"pipeline:{name}:L={cfg['L']}", names.pipeline_harness, cfg, names.replay, ("returned",),
                        f"{cfg['L']} distinct source columns, each ANY string (abstract universe: every constant the "
                        f"pipeline compares with + fresh names of any length), every behaviour of the fuzzy matcher"))
    LH = 3 if q else 4
    for h in ("exact", "fuzzy", "display_exact", "display_fuzzy", "remaining"):
        for edge in (False, True):
            if edge and (h == "remaining" or not q and h == "display_fuzzy"):
                continue
            L = LH if not (h == "display_fuzzy" and not q) else 3
            runs.append(Run(f"helper:{h}:{'edge' if edge else 'node'}:L={L}", names.helper_harness,
                            dict(helper=h, L=L, edge=edge), names.replay, ("returned",),
                            f"helper contract on {L} distinct columns (any strings) and an ARBITRARY incoming mapping"))
    return run_property("C17", tier, runs, explanation=R.EXPL, seed=seed, assumptions=[
        "strings are abstract: index into {constants the code compares with, their lower-case forms} + L fresh names; "
        "lower() is a symbolic idempotent map on fresh names",
        "difflib.get_close_matches is an oracle stub: best candidate by an uninterpreted score in [0,1] with "
        "score=1 <=> equal, ties by an arbitrary injective order",
        "dict displays/comprehensions of _name_mapping.py are switched to a symbolic-key dict model by an AST pass "
        f"over the current source; the pass was validated on {n_cases} concrete inputs against the original module "
        "in this run",
        "helper contracts compose to the partition property (DESIGN C17); a contract failure is reported only if a "
        "concrete column list violates the property in the real, uninstrumented pipeline"],
        stubs=["difflib.get_close_matches -> symbolic oracle", "dict -> SymDict (AST pass)"],
        extra=dict(traces_validated_against_impl=n_cases))


def C10(tier, seed):
    from harness import features
    from .core import Run

    q = tier == "quick"
    runs = []
    for seg in (True, False):
        runs.append(Run(f"switch:{'seg' if seg else 'noseg'}", features.switch_harness,
                        dict(seg=seg, max_keys=2 if (q or seg) else 3), features.replay, ("switched", "unknown_key"),
                        "every activation table over all available features, enable/disable with every key list of "
                        "length <= 2 over the available keys plus an unknown key"))
        runs.append(Run(f"protect:{'seg' if seg else 'noseg'}", features.protect_harness, dict(seg=seg),
                        features.replay, ("protected", "free"),
                        "every activation table, attribute update (primitive and user action) of every managed key, "
                        "time, a custom and an unregistered key"))
    for seg in (True, False):
        runs.append(Run(f"prebuilt_registry:{'seg' if seg else 'noseg'}", features.prebuilt_harness, dict(seg=seg),
                        features.prebuilt_replay, ("constructed",),
                        "SolutionTracks constructed with a pre-built FeatureDict listing every subset of the "
                        "features an annotator can manage"))
    g2, g3 = (2, 1, 2), (3, 1, 2)
    specs = [("paint", 2, g2, {"disable": ["area"]}), ("paint", 2, g2, {"all_rp": True, "disable": ["circularity", "pos"]}),
             ("UserAddEdge", 3, g3, {"iou": True, "disable": ["iou"]}),
             ("paint", 2, g3, {"iou": True, "disable": ["iou"]}),
             # a feature switched off BETWEEN an edit and its undo stays untouched by the undo
             ("paint", 2, g2, {"disable_mid": "area"}), ("paint", 2, g2, {"iou": True, "disable_mid": "iou"}),
             ("UserDeleteNode", 2, g2, {"disable_mid": "area"}),
             # a full cycle on one object: enable (recompute), disable, EDIT, enable (recompute)
             ("paint", 2, g2, {"cycle": "ellipse_axis_radii", "scale": "iso"}),
             ("paint", 2, g2, {"cycle": "iou"})]
    runs += R.seg_runs("C10", tier, specs)
    from harness import step, step_replay
    nn = 3 if q else 4
    for act in ("UserAddEdge", "UserDeleteEdge", "UserDeleteNode", "UserAddNode", "UserSwapPredecessors"):
        for dis in (["lineage_id"], ["track_id", "lineage_id"]):
            if dis[0] == "track_id" and act not in ("UserAddEdge", "UserDeleteEdge"):
                continue
            runs.append(Run(f"step:{act}:N={nn}:disable={'+'.join(dis)}", step.harness,
                            dict(N=nn, action=act, props=["C10"], disable=dis, drop_lineage_inv=True),
                            step_replay.replay, ("accepted",),
                            f"{nn} node slots, lineage ids arbitrary, the listed features disabled before the edit"))
    en = [(k, 2 if q else 3, g2 if q else g3, {"scale": "iso"}) for k in ("circularity", "perimeter")] + [
        ("iou", 3, g3, {})]
    # the key is ALREADY active (activated earlier without computing: stored values arbitrary): enabling it with
    # recomputation must still produce the reference values
    en += [("area", 2, g2, {"stale_keys": ["area"], "scale": "sym"}),
           ("circularity", 2, g2, {"all_rp": True, "stale_keys": ["circularity"]}),
           ("iou", 3, g3, {"iou": True, "stale_keys": ["iou"]})]
    # ... or the key was switched off earlier and its values went stale meanwhile
    en += [("area", 2, g2, {"stale_keys": ["area"], "was_disabled": True, "scale": "sym"}),
           ("iou", 3, g3, {"iou": True, "stale_keys": ["iou"], "was_disabled": True})]
    runs += R.enable_runs("C10", tier, en)
    return run_property("C10", tier, runs, explanation=R.EXPL, seed=seed,
                        assumptions=R.SEG_ASSUME + [
                            "sequences of switches and edits follow by induction: the activation table and the stored "
                            "values of disabled features are arbitrary in the pre-state",
                            "values after enable-with-recompute are checked against the C08/C09 reference terms "
                            "(regionprops / IoU contract stubs); track/lineage ids recomputed by the constructor are "
                            "covered under C04/C05"], stubs=R.SEG_STUBS)


def replay_file(prop, path):
    from harness import labels, relabel, seg_replay, step_replay

    with open(path) as f:
        v = json.load(f)
    run = v.get("run", "")
    fn = step_replay.replay
    if run.startswith("history_algebra"):
        from harness import history

        fn = history.replay
    if run.startswith("history_lemma"):
        from harness import history_real

        fn = history_real.replay_for(prop)
    if run.startswith(("seg:", "enable:")):
        fn = seg_replay.replay
    elif run.startswith("unique"):
        fn = labels.unique_replay
    elif run.startswith("bytrack"):
        fn = labels.bytrack_replay
    elif run in ("relabel_segmentation", "handle_segmentation"):
        fn = relabel.replay
    elif run.startswith(("switch:", "protect:", "prebuilt_registry:")):
        from harness import features

        fn = features.prebuilt_replay if run.startswith("prebuilt") else features.replay
    elif prop == "C17":
        from harness import names

        fn = names.replay
    elif prop == "C18":
        from harness import candgraph

        fn = candgraph.points_replay if run.startswith("points") else candgraph.seg_replay
    elif run.startswith("kernel:"):
        from harness import kernels

        fn = kernels.rp_replay if "regionprops" in run else kernels.ious_replay
    elif run.startswith("roundtrip:"):
        from harness import roundtrip

        fn = roundtrip.replay
    elif run.startswith("import:"):
        from harness import importer

        fn = importer.geff_replay if run.startswith("import:geff") else importer.csv_replay
    elif run.startswith("export:"):
        from harness import export_replay

        fn = export_replay.replay
    ok, detail = fn(v)
    print(("VIOLATION property=%s replay=%s" % (prop, path)) if ok else "not reproduced")
    print(detail)
    return 1 if ok else 0
