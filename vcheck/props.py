"""One entry point per property id."""
from __future__ import annotations

import json

from . import registry as R
from .core import run_property


def _step(prop, tier, seed, actions, extra_assume=()):
    return run_property(prop, tier, R.step_runs(prop, tier, actions), explanation=R.EXPL,
                        assumptions=R.STEP_ASSUME + list(extra_assume), seed=seed)


def C03(tier, seed):
    return _step("C03", tier, seed, R.USER[:5])


def C04(tier, seed):
    return _step("C04", tier, seed, R.USER[:5])


def C05(tier, seed):
    return _step("C05", tier, seed, R.USER[:5])


def C06(tier, seed):
    return _step("C06", tier, seed, R.USER)


def C11(tier, seed):
    return _step("C11", tier, seed, R.USER)


def C20(tier, seed):
    return _step("C20", tier, seed, R.USER)


def C01(tier, seed):
    return _step("C01", tier, seed, R.USER + R.PRIMS, extra_assume=[
        "primitive preconditions as documented: AddNode adds a new node, DeleteNode has no incident edges, "
        "UpdateTrackIDs does not reuse a tracklet id present in the start node's component"])


def C02(tier, seed):
    return _step("C02", tier, seed, R.USER)


def replay_file(prop, path):
    from harness import step_replay

    with open(path) as f:
        v = json.load(f)
    ok, detail = step_replay.replay(v)
    print(("VIOLATION property=%s replay=%s" % (prop, path)) if ok else "not reproduced")
    print(detail)
    return 1 if ok else 0
