"""One entry point per property id."""
from __future__ import annotations

import json

from . import registry as R
from .core import run_property


def _step(prop, tier, seed, actions, extra_assume=()):
    return run_property(prop, tier, R.step_runs(prop, tier, actions), explanation=R.EXPL,
                        assumptions=R.STEP_ASSUME + list(extra_assume), seed=seed)


def C03(tier, seed):
    return _step("C03", tier, seed, R.USER[:5])


def C04(tier, seed):
    return _step("C04", tier, seed, R.USER[:5])


def C05(tier, seed):
    return _step("C05", tier, seed, R.USER[:5])


def C06(tier, seed):
    return _step("C06", tier, seed, R.USER)


def C11(tier, seed):
    return _step("C11", tier, seed, R.USER)


def C20(tier, seed):
    return _step("C20", tier, seed, R.USER)


def C01(tier, seed):
    return _step("C01", tier, seed, R.USER + R.PRIMS, extra_assume=[
        "primitive preconditions as documented: AddNode adds a new node, DeleteNode has no incident edges, "
        "UpdateTrackIDs does not reuse a tracklet id present in the start node's component"])


def C02(tier, seed):
    return _step("C02", tier, seed, R.USER)


def C19(tier, seed):
    from harness import labels
    from .core import Run

    q = tier == "quick"
    runs = [
        Run("unique:T3xP2" if q else "unique:T4xP3", labels.unique_harness, dict(shape=(3, 2) if q else (4, 3)),
            labels.unique_replay, ("returned", "witness:two_frames_labelled"),
            "label array of %s cells, labels arbitrary non-negative integers" % ("3x2" if q else "4x3")),
        Run("unique:multiseg:2x2x2", labels.unique_harness, dict(shape=(2, 2, 2), multiseg=True),
            labels.unique_replay, ("returned",), "2 hypotheses x 2 frames x 2 cells, labels arbitrary integers >= 0"),
        Run("bytrack:N=%d" % (3 if q else 4), labels.bytrack_harness,
            dict(N=3 if q else 4, T=3, P=2 if q else 3), labels.bytrack_replay,
            ("returned", "witness:division_present"),
            "solution forest on <= %d detections over 3 frames (all shapes), %d cells per frame, cell labels and "
            "seg ids arbitrary integers" % ((3, 2) if q else (4, 3))),
    ]
    return run_property("C19", tier, runs, explanation=R.EXPL, seed=seed, assumptions=[
        "labels are non-negative mathematical integers (uint64 wrap-around outside the claim)",
        "detections of the solution graph are distinct (time, seg_id) pairs with time inside the array",
        "SArr model conforms to numpy for the operations used (self-test)"],
        stubs=["numpy ndarray -> SArr (symbolic cells)"])


def C13(tier, seed):
    from harness import relabel
    from .core import Run

    q = tier == "quick"
    M, T, P = (3, 2, 3) if q else (3, 3, 3)
    b = "<=%d nodes (ids 0..4 distinct, seg ids 1..3 distinct per frame, all assignments), %d frames x %d cells, " \
        "cell labels arbitrary integers >= 0" % (M, T, P)
    runs = [
        Run("relabel_segmentation", relabel.harness, dict(T=T, P=P, M=M), relabel.replay,
            ("relabelled", "shifted", "unshifted"), b),
        Run("handle_segmentation", relabel.harness, dict(T=T, P=P, M=2 if q else 3, via_builder=True), relabel.replay,
            ("relabelled", "shortcut"), b.replace("<=%d" % M, "<=%d" % (2 if q else 3))),
    ]
    return run_property("C13", tier, runs, explanation=R.EXPL, seed=seed, assumptions=[
        "node ids, seg ids and times are dict keys inside the function: drawn from small stated ranges and "
        "enumerated by solver-guided forks; the cell labels are unconstrained symbolic integers",
        "load_segmentation is the identity on an in-memory array (dask wrapping cut); validate_graph_seg_match not "
        "reached (no position on the graph)",
        "labels are mathematical integers (uint64 wrap-around outside the claim)"],
        stubs=["load_segmentation -> identity", "numpy ndarray -> SArr"])


def replay_file(prop, path):
    from harness import step_replay

    with open(path) as f:
        v = json.load(f)
    ok, detail = step_replay.replay(v)
    print(("VIOLATION property=%s replay=%s" % (prop, path)) if ok else "not reproduced")
    print(detail)
    return 1 if ok else 0
