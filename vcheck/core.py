"""Check driver: runs the harnesses registered for one property, replays every
counterexample on the unmodified stack, writes the evidence file, sets the exit code.

exit 0  property held on everything explored (known findings are printed, not failed)
exit 1  a replay-confirmed violation that known_findings.json does not list
exit 3  inconclusive / harness error (never a pass, never a violation)
"""
from __future__ import annotations

import hashlib
import json
import os
import sys
import time
import traceback
import warnings
from dataclasses import dataclass, field

ROOT = os.path.dirname(os.path.dirname(os.path.abspath(__file__)))


@dataclass
class Run:
    name: str
    harness: object  # callable(ctx, cfg)
    cfg: dict
    replay: object = None  # callable(failure) -> (bool, detail)
    need_tags: tuple = ()  # reachability twins: each tag must be hit by >= 1 path
    bound: str = ""
    fallback_obligations: tuple = ()  # extra obligation names tried by the concrete fall-back (see run_property)


@dataclass
class Outcome:
    violations: list = field(default_factory=list)
    known_hits: dict = field(default_factory=dict)
    inconclusive: list = field(default_factory=list)
    runs: list = field(default_factory=list)


def load_known(prop=None):
    p = os.path.join(ROOT, "known_findings.json")
    if not os.path.exists(p):
        return []
    with open(p) as f:
        data = json.load(f)
    out = []
    for k in data.get("findings", []):
        if k.get("status", "open") != "open":
            continue
        if prop is not None and k.get("property") != prop:
            continue
        out.append(k)
    return out


def _jsonable(x):
    try:
        json.dumps(x)
        return x
    except TypeError:
        if isinstance(x, dict):
            return {str(k): _jsonable(v) for k, v in x.items()}
        if isinstance(x, (list, tuple, set)):
            return [_jsonable(v) for v in x]
        return repr(x)


def run_property(prop, tier, runs, *, level="other", explanation="", assumptions=(), stubs=(), extra=None,
                 seed=0):
    from sx.explore import Tracer, explore

    t0 = time.time()
    known = load_known(prop)
    out = Outcome()
    funcs = set()
    tot = dict(paths=0, aborted=0, nsolve=0, solve_s=0.0, obligations=0, discharged=0, sigs=0)
    cross = dict(agree=0, disagree=0, unknown=0)
    samples = []
    bounds = []
    only = os.environ.get("VERIF_ONLY_RUN")  # development aid: substring filter on run names (never registered)
    if only:
        runs = [r for r in runs if only in r.name]
        if not os.environ.get("VERIF_EVIDENCE_DIR"):
            os.environ["VERIF_EVIDENCE_DIR"] = "/tmp/verif-partial-evidence"
    for run in runs:
        tr = Tracer()
        try:
            agg, info = explore(run.harness, run.cfg, known=known, trace=tr,
                                deadline_s=float(os.environ.get("VERIF_DEADLINE_S", "0")) or None)
        except Exception as e:  # engine failure
            out.inconclusive.append(f"{run.name}: engine error {type(e).__name__}: {e}\n{traceback.format_exc()}")
            continue
        funcs |= tr.funcs
        n_obl = sum(agg.obl.values())
        n_ok = sum(v for (n, s), v in agg.obl.items() if s == "ok")
        tot["paths"] += agg.paths
        tot["aborted"] += agg.aborted
        tot["nsolve"] += agg.nsolve
        tot["solve_s"] += agg.solve_s
        tot["obligations"] += n_obl
        tot["discharged"] += n_ok
        tot["sigs"] += len(agg.sigs)
        for kk, vv in agg.cross.items():
            cross[kk] = cross.get(kk, 0) + vv
        if agg.cross.get("disagree"):
            out.inconclusive.append(f"{run.name}: z3 and cvc5 disagree on {agg.cross['disagree']} sampled "
                                    f"obligation(s): {agg.cross_notes[:2]}")
        rinfo = dict(run=run.name, bound=run.bound, cfg=_jsonable({k: v for k, v in run.cfg.items()}),
                     paths=agg.paths, infeasible_paths=agg.aborted, solver_calls=agg.nsolve,
                     solver_s=round(agg.solve_s, 2), wall_s=round(info.get("wall_s", 0), 2),
                     exhaustive=bool(info["exhaustive"]), obligations=n_obl, discharged=n_ok,
                     outcome_classes={k: v for k, v in sorted(agg.tags.items())},
                     per_obligation={f"{n}:{s}": v for (n, s), v in sorted(agg.obl.items())})
        out.runs.append(rinfo)
        bounds.append(f"{run.name}: {run.bound}")
        for s in agg.samples[:2]:
            s = dict(s)
            s["run"] = run.name
            samples.append(_jsonable(s))
        if agg.errors:
            first = next((e for e in agg.errors if e), None)
            out.inconclusive.append(f"{run.name}: {len(agg.errors)} path(s) unsupported/error; first: "
                                    f"{first['err'] if first else ''}")
            # Concrete fall-back: a path that left the modelled API cannot be decided symbolically, but the solver's
            # model of its path condition is a concrete input - run it on the real stack against every obligation of
            # this run.  Reproduced => VIOLATION (it IS a failing run of the real code); otherwise still inconclusive.
            # (only obligations whose replay oracle is SELF-CONTAINED - judges any input of the harness, not just
            # a model of the failing obligation - are opted in per run)
            names = sorted(set(run.fallback_obligations))
            open_known = {k.get("obligation") for k in known} | {o for k in known for o in k.get("obligations", ())}
            done = set()
            for e in agg.errors:
                if not e or not e.get("instance") or run.replay is None:
                    continue
                for ob in names:
                    if ob in done or ob in open_known or None in open_known:
                        continue
                    f = dict(obligation=ob, known=None, inputs=e["instance"], tags=["concrete_fallback"])
                    try:
                        with warnings.catch_warnings():
                            warnings.simplefilter("ignore")
                            ok, detail = run.replay(f)
                    except Exception:
                        continue
                    if ok:
                        done.add(ob)
                        out.violations.append(dict(property=prop, obligation=ob, run=run.name, inputs=f["inputs"],
                                                   detail="[path left the modelled API; concrete instance of its path "
                                                          "condition run on the real stack] " + str(detail),
                                                   tags=f["tags"]))
        if not info["exhaustive"] and not agg.errors:
            out.inconclusive.append(f"{run.name}: exploration not exhaustive ({info.get('truncated')})")
        for t in run.need_tags:
            if agg.tags.get(t, 0) == 0:
                out.inconclusive.append(f"{run.name}: reachability twin '{t}' never hit (vacuous harness?)")
        # ---- replay failures
        by = {}
        for f in agg.failures:
            by.setdefault((f["obligation"], f["known"]), []).append(f)
        for (ob, kid), fs in sorted(by.items(), key=lambda kv: (kv[0][0], str(kv[0][1]))):
            reproduced = None
            details = []
            for f in fs:
                if run.replay is None:
                    details.append("no replay function")
                    break
                try:
                    with warnings.catch_warnings():
                        warnings.simplefilter("ignore")
                        ok, detail = run.replay(f)
                except Exception as e:
                    ok, detail = False, f"replay crashed: {type(e).__name__}: {e}\n{traceback.format_exc()[-800:]}"
                details.append(detail)
                if ok:
                    reproduced = (f, detail)
                    break
            if reproduced is None:
                out.inconclusive.append(f"{run.name}: obligation {ob} failed in the engine on {len(fs)} model(s) but "
                                        f"no model reproduces on the real stack: {details[:2]}")
                continue
            f, detail = reproduced
            if kid is not None:
                out.known_hits.setdefault(kid, dict(obligation=ob, run=run.name, inputs=f["inputs"], detail=detail))
            else:
                out.violations.append(dict(property=prop, obligation=ob, run=run.name, inputs=f["inputs"],
                                           detail=detail, tags=f.get("tags")))
    # ---- report
    code = 0
    kmap = {k["id"]: k for k in known}
    for kid, hit in sorted(out.known_hits.items()):
        print(f"KNOWN-FINDING: property={prop} {kid}: {kmap[kid].get('what', '')}")
    for v in out.violations:
        h = hashlib.sha1(json.dumps(_jsonable(v), sort_keys=True).encode()).hexdigest()[:10]
        os.makedirs(os.path.join(ROOT, "replay"), exist_ok=True)
        path = os.path.join(ROOT, "replay", f"{prop}-{h}.json")
        with open(path, "w") as fh:
            json.dump(_jsonable(v), fh, indent=1)
        print(f"VIOLATION property={prop} replay={path}")
        print(f"  obligation {v['obligation']} in {v['run']}: {str(v['detail'])[:600]}")
        code = 1
    if out.inconclusive and code == 0:
        code = 3
    for m in out.inconclusive:
        print(f"INCONCLUSIVE property={prop}: {m[:1500]}")
    wall = time.time() - t0
    ev = dict(
        property_id=prop, tier=tier, seed=seed, level=level,
        coverage=dict(
            explanation=explanation,
            evaluations=tot["paths"],
            distinct_nontrivial=tot["sigs"],
            rule=("evaluations = complete symbolic execution paths of the real code (each path is a set of concrete "
                  "runs described by a path condition; infeasible prefixes not counted); a path is non-trivial if it "
                  "reached at least one proof obligation, and two paths are distinct if they differ in outcome class / "
                  "sub-action signature / obligation list"),
            samples=samples[:8],
            obligations=tot["obligations"], discharged=tot["discharged"],
            exhaustive=all(r["exhaustive"] for r in out.runs) and not out.inconclusive,
            solver="z3 " + _z3v(), solver_calls=tot["nsolve"], solver_s=round(tot["solve_s"], 2),
            second_solver=dict(solver="cvc5 1.0.3 binary, SMT-LIB export of sampled queries",
                               sampled_queries=sum(cross.values()), **cross),
            infeasible_paths=tot["aborted"],
            functions_encoded=sorted(funcs), bounds=bounds, stubs=list(stubs), runs=out.runs,
            known_findings_hit=sorted(out.known_hits), inconclusive=out.inconclusive,
        ),
        assumptions=list(assumptions), wall_s=round(wall, 2), violations=len(out.violations),
    )
    if extra:
        ev["coverage"].update(extra)
    evdir = os.environ.get("VERIF_EVIDENCE_DIR") or os.path.join(ROOT, "evidence")  # (seed evaluation redirects)
    os.makedirs(evdir, exist_ok=True)
    with open(os.path.join(evdir, f"{prop}.json"), "w") as fh:
        json.dump(_jsonable(ev), fh, indent=1)
    print(f"{prop} [{tier}] paths={tot['paths']} obligations={tot['obligations']} discharged={tot['discharged']} "
          f"solver_calls={tot['nsolve']} solver_s={tot['solve_s']:.1f} wall_s={wall:.1f} exit={code}")
    return code


def _z3v():
    try:
        import z3

        return z3.get_version_string()
    except Exception:
        return "?"
