from __future__ import annotations

import argparse
import json
import os
import sys

sys.path.insert(0, os.path.dirname(os.path.dirname(os.path.abspath(__file__))))
sys.setrecursionlimit(10000)


def main():
    ap = argparse.ArgumentParser()
    ap.add_argument("prop")
    ap.add_argument("--tier", default=os.environ.get("VERIF_TIER", "quick"), choices=["quick", "thorough"])
    ap.add_argument("--replay")
    a = ap.parse_args()
    seed = int(os.environ.get("VERIF_SEED", "0") or 0)
    from vcheck import props

    if a.prop == "selftest":
        from sx import selftest

        sys.exit(selftest.main())
    if a.replay:
        sys.exit(props.replay_file(a.prop, a.replay))
    fn = getattr(props, a.prop, None)
    if fn is None:
        print(f"unknown property {a.prop}")
        sys.exit(3)
    sys.exit(fn(a.tier, seed))


main()
