"""Abstract symbolic strings (C17) and a symbolic-key dict model.

A symbolic string is an index into a universe = every string constant the code under
test can compare a column name with (plus lower-case forms) + L fresh names that differ
from every constant and from each other.  `==` is an index equation; `lower()` is fixed on
constants and a symbolic idempotent map on fresh names.  A symbolic string is never hashed
(Unsupported): dict displays / comprehensions in the code under test are switched to SymDict
by an AST pass over the CURRENT source (validated against the original on every run).
"""
from __future__ import annotations

import ast
import types

import z3

from .rt import SBool, Unsupported, cur, And, Or, Not, If


class Universe:
    def __init__(self, consts, n_fresh):
        cs = set(consts)
        cs |= {c.lower() for c in cs}
        self.consts = sorted(cs)
        self.K = len(self.consts)
        self.L = n_fresh
        self.names = self.consts + [f"\x00fresh{j}" for j in range(n_fresh)]
        self.idx = {s: i for i, s in enumerate(self.names)}
        self.lowf = [z3.Int(f"lowfresh{j}") for j in range(n_fresh)]
        self.score = z3.Function("score", z3.IntSort(), z3.IntSort(), z3.RealSort())
        self.ord = z3.Function("ord", z3.IntSort(), z3.IntSort())

    def axioms(self):
        cs = []
        n = len(self.names)
        for j in range(self.L):
            lj = self.lowf[j]
            # a fresh name lower-cases onto a lower-case constant or onto a fresh name that is its own lower case
            cs.append(Or([lj == t for t in range(n) if (t >= self.K or self.names[t].lower() == self.names[t])]))
            cs.append(self.lower(lj) == lj)
        cs.append(z3.Distinct([self.ord(z3.IntVal(i)) for i in range(n)]))
        return And(cs)

    def lower(self, e):
        r = e
        for j in range(self.L):
            r = If(e == self.K + j, self.lowf[j], r)
        for i in range(self.K):
            li = self.idx[self.names[i].lower()]
            if li != i:
                r = If(e == i, z3.IntVal(li), r)
        return r

    def index_of(self, s):
        if isinstance(s, SStr):
            return s.e
        if isinstance(s, str):
            if s in self.idx:
                return z3.IntVal(self.idx[s])
            raise Unsupported(f"string {s!r} outside the abstract universe")
        raise Unsupported(f"not a string: {s!r}")


class SStr:
    __slots__ = ("u", "e", "name")

    def __init__(self, u, e, name=None):
        self.u, self.e, self.name = u, e, name

    def __hash__(self):
        raise Unsupported("hash of a symbolic string (a plain dict/set reached with a symbolic key)")

    def __eq__(self, o):
        if isinstance(o, SStr):
            return SBool(self.e == o.e)
        if isinstance(o, str):
            return SBool(self.e == self.u.idx[o]) if o in self.u.idx else False
        return False

    def __ne__(self, o):
        r = self.__eq__(o)
        return (~r) if isinstance(r, SBool) else (not r)

    def lower(self):
        return SStr(self.u, self.u.lower(self.e))

    def __repr__(self):
        return f"SStr({self.name or z3.simplify(self.e)})"

    def __lt__(self, o):
        raise Unsupported("ordering of symbolic strings")


def make_difflib_stub(u: Universe):
    """difflib.get_close_matches(word, P, n=1, cutoff): the candidate maximising (score, ord) among those
    with score >= cutoff, or []; score is an uninterpreted function into [0,1] with score(a,b)=1 <=> a=b
    (true of SequenceMatcher.ratio), ord an arbitrary injective order (difflib breaks ties by string order)."""

    class stub:
        @staticmethod
        def get_close_matches(word, possibilities, n=3, cutoff=0.6):
            if n != 1:
                raise Unsupported("get_close_matches with n != 1")
            cands = list(possibilities)
            c = cur()
            w = u.index_of(word)
            ce = [u.index_of(x) for x in cands]
            sc = []
            for x in ce:
                s = u.score(w, x)
                c.add(And(s >= 0, s <= 1, (s == 1) == (w == x)))
                sc.append(s)
            co = z3.RealVal(str(cutoff))
            for i, x in enumerate(cands):
                best = And([sc[i] >= co] + [Or(sc[i] > sc[j], And(sc[i] == sc[j], u.ord(ce[i]) >= u.ord(ce[j])))
                                             for j in range(len(cands)) if j != i])
                if c.decide(best):
                    return [x]
            c.assume(And([s < co for s in sc]))
            return []

    return stub


def keq(a, b):
    r = a == b
    return bool(r)


class SymDict:
    """dict model whose keys may be symbolic strings: lookups fork on key equality, nothing is hashed"""

    def __init__(self, pairs=()):
        self.ent = []  # [key, value, present (True/False or z3 Bool), written by the code under test]
        if isinstance(pairs, (dict, SymDict)):
            pairs = list(pairs.items())
        for k, v in pairs:
            self[k] = v

    def preset(self, k, v, present):
        """harness: an entry of the arbitrary incoming mapping (symbolic presence)"""
        self.ent.append([k, v, present, False])

    def _present(self, e):
        if e is None:
            return False
        if e[2] is True:
            return True
        if e[2] is False:
            return False
        r = cur().decide(e[2])
        e[2] = True if r else False
        return r

    def __contains__(self, k):
        for e in self.ent:
            if keq(e[0], k):
                return self._present(e)
        return False

    def __getitem__(self, k):
        for e in self.ent:
            if keq(e[0], k):
                if self._present(e):
                    return e[1]
                break
        raise KeyError(k)

    def get(self, k, d=None):
        for e in self.ent:
            if keq(e[0], k):
                return e[1] if self._present(e) else d
        return d

    def __setitem__(self, k, v):
        for e in self.ent:
            if keq(e[0], k):
                e[1] = v
                e[2] = True
                e[3] = True
                return
        self.ent.append([k, v, True, True])

    def _live(self):
        return [e for e in self.ent if self._present(e)]

    def items(self):
        return [(e[0], e[1]) for e in self._live()]

    def keys(self):
        return [e[0] for e in self._live()]

    def values(self):
        return [e[1] for e in self._live()]

    def __iter__(self):
        return iter(self.keys())

    def __len__(self):
        return len(self._live())

    def __bool__(self):
        return len(self) > 0

    def update(self, other):
        for k, v in (other.items() if hasattr(other, "items") else other):
            self[k] = v

    def pop(self, k, *d):
        for e in self.ent:
            if keq(e[0], k):
                if self._present(e):
                    e[2] = False
                    return e[1]
                break
        if d:
            return d[0]
        raise KeyError(k)

    def copy(self):
        n = SymDict()
        n.ent = [list(e) for e in self.ent]
        return n

    def setdefault(self, k, d=None):
        if k in self:
            return self[k]
        self[k] = d
        return d


class _T(ast.NodeTransformer):
    def visit_Dict(self, node):
        self.generic_visit(node)
        if any(k is None for k in node.keys):
            raise Unsupported("dict unpacking in instrumented source")
        pairs = ast.List(elts=[ast.Tuple(elts=[k, v], ctx=ast.Load()) for k, v in zip(node.keys, node.values)],
                         ctx=ast.Load())
        return ast.copy_location(ast.Call(func=ast.Name(id="__symdict__", ctx=ast.Load()), args=[pairs],
                                          keywords=[]), node)

    def visit_DictComp(self, node):
        self.generic_visit(node)
        lc = ast.ListComp(elt=ast.Tuple(elts=[node.key, node.value], ctx=ast.Load()), generators=node.generators)
        return ast.copy_location(ast.Call(func=ast.Name(id="__symdict__", ctx=ast.Load()), args=[lc],
                                          keywords=[]), node)


def instrument(path, name):
    """compile the CURRENT source of `path` with every dict display / comprehension replaced by SymDict"""
    with open(path) as f:
        src = f.read()
    tree = _T().visit(ast.parse(src))
    ast.fix_missing_locations(tree)
    mod = types.ModuleType(name)
    mod.__dict__["__symdict__"] = SymDict
    mod.__file__ = path
    exec(compile(tree, path, "exec"), mod.__dict__)  # noqa: S102
    return mod


def plain(x):
    """SymDict / nested values -> plain python (for comparing instrumented and original results)"""
    if isinstance(x, SymDict):
        return {k: plain(v) for k, v in x.items()}
    if isinstance(x, dict):
        return {k: plain(v) for k, v in x.items()}
    if isinstance(x, list):
        return [plain(v) for v in x]
    return x
