"""Work-list exploration of all paths of a harness, distributed over a process pool."""
from __future__ import annotations

import multiprocessing as mp
import os
import sys
import time
import traceback
import warnings
from collections import Counter

from . import rt

_TASK = None  # (harness, cfg, known) -- inherited by forked workers


def run_path(harness, cfg, known, prefix):
    ctx = rt.Ctx(prefix, known)
    rt.set_cur(ctx)
    status = "ok"
    err = None
    try:
        with warnings.catch_warnings():
            warnings.simplefilter("ignore")
            harness(ctx, cfg)
    except rt.PathAbort:
        status = "aborted"
    except rt.Unsupported as e:
        status = "unsupported"
        err = f"{type(e).__name__}: {e}\n" + "".join(traceback.format_tb(e.__traceback__)[-6:])
    except Exception as e:  # harness error
        status = "error"
        err = f"{type(e).__name__}: {e}\n" + "".join(traceback.format_tb(e.__traceback__)[-8:])
    finally:
        rt.set_cur(None)
    return ctx, status, err


class Agg:
    def __init__(self):
        self.paths = 0
        self.aborted = 0
        self.nsolve = 0
        self.solve_s = 0.0
        self.decisions = 0
        self.obl = Counter()
        self.tags = Counter()
        self.failures = []
        self.samples = []
        self.errors = []
        self.sigs = set()
        self.cross = Counter()
        self.cross_notes = []

    def add_path(self, ctx, status, err, keep_sample):
        self.nsolve += ctx.nsolve
        self.solve_s += ctx.solve_s
        self.decisions += len(ctx.decisions)
        for name, outcome, note in ctx.cross:
            self.cross[outcome] += 1
            if outcome != "agree" and len(self.cross_notes) < 5:
                self.cross_notes.append(f"{name}: {outcome} ({note})")
        if status == "aborted":
            self.aborted += 1
            return
        if status in ("unsupported", "error"):
            if len(self.errors) < 5:
                # one concrete member of the path that left the modelled API: the driver runs it on the real stack
                # (a violation found there is reported; nothing found keeps the run inconclusive)
                inst = None
                try:
                    rt.set_cur(ctx)
                    inst = ctx.diverse_instance()
                except BaseException:
                    inst = None
                finally:
                    rt.set_cur(None)
                self.errors.append(dict(status=status, err=err, decisions=_short(ctx.decisions), instance=inst))
            else:
                self.errors.append(None)
            return
        self.paths += 1
        for r in ctx.results:
            self.obl[r] += 1
        for t in set(ctx.tags):
            self.tags[t] += 1
        if ctx.results:
            self.sigs.add(hash((tuple(sorted(set(ctx.tags))), tuple(n for n, _ in ctx.results))))
        for f in ctx.failures:
            key = (f["obligation"], f["known"])
            if sum(1 for g in self.failures if (g["obligation"], g["known"]) == key) < 12:
                self.failures.append(f)
        if keep_sample:
            witness = None
            try:  # one concrete member of the set of runs this path stands for
                if ctx.feasible():
                    witness = ctx._model_inputs(ctx.model)
            except BaseException:
                witness = None
            self.samples.append(dict(decisions=_short(ctx.decisions), tags=sorted(set(ctx.tags)),
                                     obligations=[f"{n}:{s}" for n, s in ctx.results][:40],
                                     one_concrete_instance_of_this_path=witness))

    def merge(self, o):
        self.paths += o.paths
        self.aborted += o.aborted
        self.nsolve += o.nsolve
        self.solve_s += o.solve_s
        self.decisions += o.decisions
        self.obl.update(o.obl)
        self.tags.update(o.tags)
        for f in o.failures:
            key = (f["obligation"], f["known"])
            if sum(1 for g in self.failures if (g["obligation"], g["known"]) == key) < 12:
                self.failures.append(f)
        for s in o.samples:
            if len(self.samples) < 6:
                self.samples.append(s)
        self.errors.extend(o.errors)
        self.sigs |= o.sigs
        self.cross.update(o.cross)
        self.cross_notes.extend(o.cross_notes[: max(0, 5 - len(self.cross_notes))])


def _short(decisions):
    out = []
    for k, v, _ in decisions[:60]:
        out.append(f"{k}:{v}")
    return out


def _work(args):
    prefix, budget, want_sample = args
    harness, cfg, known = _TASK
    agg = Agg()
    work = [prefix]
    n = 0
    while work and n < budget:
        p = work.pop()
        ctx, status, err = run_path(harness, cfg, known, p)
        agg.add_path(ctx, status, err, want_sample and n < 2)
        work.extend(ctx.alts)
        n += 1
    return agg, work


def explore(harness, cfg, known=(), workers=None, deadline_s=None, max_paths=None, trace=None):
    """Explore every path of harness(ctx, cfg).  Returns (Agg, info) where
    info['exhaustive'] says whether the work-list drained."""
    global _TASK
    workers = workers or int(os.environ.get("VERIF_WORKERS", "0")) or min(16, os.cpu_count() or 1)
    _TASK = (harness, cfg, list(known))
    t0 = time.time()
    total = Agg()
    info = dict(exhaustive=False, truncated=None)
    # the first path runs in the parent (optionally traced) to fail fast on harness errors
    if trace is not None:
        trace.start()
    try:
        a, work = _work(([], 1, True))
    finally:
        if trace is not None:
            trace.stop()
    total.merge(a)
    if any(e and e.get("status") == "error" for e in total.errors):
        info["wall_s"] = time.time() - t0
        return total, info
    if workers <= 1:
        while work:
            if deadline_s and time.time() - t0 > deadline_s:
                info["truncated"] = "deadline"
                break
            if max_paths and total.paths + total.aborted >= max_paths:
                info["truncated"] = "max_paths"
                break
            a, rest = _work((work.pop(), 50, len(total.samples) < 6))
            total.merge(a)
            work.extend(rest)
        else:
            info["exhaustive"] = not total.errors
        info["wall_s"] = time.time() - t0
        return total, info
    from concurrent.futures import FIRST_COMPLETED, ProcessPoolExecutor, wait
    from concurrent.futures.process import BrokenProcessPool

    ex = ProcessPoolExecutor(max_workers=workers, mp_context=mp.get_context("fork"))
    stall_s = float(os.environ.get("VERIF_STALL_S", "900"))
    start_s = float(os.environ.get("VERIF_POOL_START_S", "240"))
    pending = {}  # future -> prefix (to resubmit the work of a pool that never came up)
    first_done, restarts, pool_t0 = False, 0, time.time()
    try:
        inflight = set()
        last_progress = time.time()
        while work or inflight:
            if deadline_s and time.time() - t0 > deadline_s:
                info["truncated"] = "deadline"
                break
            if max_paths and total.paths + total.aborted >= max_paths:
                info["truncated"] = "max_paths"
                break
            if len(total.errors) > 20:
                info["truncated"] = "errors"
                break
            while work and len(inflight) < workers * 3:
                p = work.pop()
                budget = 4 if len(work) + len(inflight) < workers * 4 else 40
                fut = ex.submit(_work, (p, budget, len(total.samples) < 6))
                pending[fut] = p
                inflight.add(fut)
            done, inflight = wait(inflight, timeout=5, return_when=FIRST_COMPLETED)
            if not done:
                if not first_done and restarts < 2 and time.time() - pool_t0 > start_s:
                    # not one task of this pool has come back: its workers may have dead-locked at fork time
                    # (a fork taken while another thread held a lock).  Paths are deterministic functions of
                    # their decision prefix: discard the pool and resubmit the same prefixes to a fresh one.
                    restarts += 1
                    for pr in list((getattr(ex, "_processes", None) or {}).values()):
                        try:
                            pr.kill()
                        except Exception:
                            pass
                    ex.shutdown(wait=False, cancel_futures=True)
                    work.extend(pending[f] for f in inflight)
                    inflight, pending = set(), {}
                    ex = ProcessPoolExecutor(max_workers=workers, mp_context=mp.get_context("fork"))
                    pool_t0 = last_progress = time.time()
                    continue
                if time.time() - last_progress > stall_s:
                    info["truncated"] = f"no task finished for {stall_s:.0f}s"
                    total.errors.append(dict(status="error", err=info["truncated"], decisions=[]))
                    break
                continue
            last_progress = time.time()
            first_done = True
            for r in done:
                pending.pop(r, None)
                try:
                    a, rest = r.result()
                except BrokenProcessPool as e:
                    info["truncated"] = "a worker process died"
                    total.errors.append(dict(status="error", err=f"worker process died: {e}", decisions=[]))
                    work = []
                    inflight = set()
                    break
                total.merge(a)
                work.extend(rest)
        else:
            info["exhaustive"] = not total.errors
    finally:
        procs = list((getattr(ex, "_processes", None) or {}).values())
        mgr = getattr(ex, "_executor_manager_thread", None)
        if os.environ.get("VERIF_GRACEFUL") or not inflight:
            # nothing is running any more: let the workers exit normally and JOIN the executor's threads.  (A
            # lingering manager / queue-feeder thread of this pool can hold a lock at the moment the next
            # explore() forks its workers, which then dead-lock at start-up.)
            ex.shutdown(wait=True, cancel_futures=True)
        else:
            ex.shutdown(wait=False, cancel_futures=True)
            for pr in procs:
                try:
                    pr.terminate()
                except Exception:
                    pass
            if mgr is not None:
                mgr.join(timeout=20)
    info["wall_s"] = time.time() - t0
    return total, info


class Tracer:
    """Collects the funtracks functions executed (by qualified name) under /repo/src."""

    def __init__(self, root=None):
        root = root or (os.environ.get("VERIF_REPO", "/repo") + "/src")
        self.root = root
        self.funcs = set()

    def start(self):
        def prof(frame, event, arg):
            if event == "call":
                co = frame.f_code
                fn = co.co_filename
                if fn.startswith(self.root):
                    self.funcs.add(f"{fn[len(self.root) + 1:]}:{co.co_qualname}")
            return None

        sys.setprofile(prof)

    def stop(self):
        sys.setprofile(None)
