"""Lazily initialised id -> node-list bookkeeping (models TrackAnnotator's dict-of-lists).

The initial content is *defined* by the pre-state attributes:
    d[k] == [n for n in nodes if alive0[n] and id0[n] == k]   (no empty lists kept)
so lookup keys never have to be concretised and ids range over all integers.
"""
from __future__ import annotations

import z3

from .rt import SInt, Unsupported, cur, toint, zb, And, Or, Not, is_lit_false, is_lit_true


class SymList:
    """list of concrete elements with symbolic presence guards"""

    def __init__(self, entries=None):
        self.entries = list(entries or [])  # [(guard, elem:int)]

    def _concretize(self):
        ent = []
        for g, e in self.entries:
            if cur().decide(zb(g)):
                ent.append((True, e))
        self.entries = ent
        return [e for _, e in ent]

    def __iter__(self):
        return iter(self._concretize())

    def __len__(self):
        return len(self._concretize())

    def __bool__(self):
        return cur().decide(Or([zb(g) for g, _ in self.entries])) if self.entries else False

    def __getitem__(self, i):
        return self._concretize()[i]

    def __contains__(self, x):
        xe = toint(x)
        if xe is None:
            return False
        return cur().decide(Or([And(zb(g), xe == e) for g, e in self.entries])) if self.entries else False

    def __eq__(self, o):
        if isinstance(o, (list, SymList)):
            return list(self) == list(o)
        return NotImplemented

    __hash__ = None

    def extend(self, xs):
        for x in xs:
            self.append(x)

    def append(self, x):
        if isinstance(x, SInt):
            x = cur().concretize(x.e)
        self.entries.append((True, int(x)))

    def remove(self, x):
        if isinstance(x, SInt):
            x = cur().concretize(x.e)
        x = int(x)
        seen = False
        new = []
        for g, e in self.entries:
            if e == x:
                # removed iff present and no earlier present occurrence
                keep = And(zb(g), zb(seen))
                new.append((keep, e))
                seen = Or(zb(seen), zb(g))
            else:
                new.append((g, e))
        if not cur().decide(zb(seen)):
            raise ValueError("list.remove(x): x not in list")
        self.entries = [(g, e) for g, e in new if not is_lit_false(g)]

    def sort(self, key=None, reverse=False):
        elems = self._concretize()
        elems.sort(key=key, reverse=reverse)
        self.entries = [(True, e) for e in elems]

    def copy(self):
        return SymList(self.entries)

    def index(self, x, *a):
        return self._concretize().index(self._elem(x), *a)

    # ---- the rest of the list API, by concretising the presence guards first (forks), so that code which handles the
    # bookkeeping lists with other list operations is still executed rather than ending in a TypeError of the model
    def _elem(self, x):
        if isinstance(x, SInt):
            x = cur().concretize(x.e)
        return int(x)

    def _set(self, elems):
        self.entries = [(True, int(e)) for e in elems]

    def __delitem__(self, i):
        elems = self._concretize()
        del elems[i]
        self._set(elems)

    def __setitem__(self, i, v):
        elems = self._concretize()
        if isinstance(i, slice):
            elems[i] = [self._elem(x) for x in v]
        else:
            elems[i] = self._elem(v)
        self._set(elems)

    def insert(self, i, x):
        elems = self._concretize()
        elems.insert(i, self._elem(x))
        self._set(elems)

    def pop(self, i=-1):
        elems = self._concretize()
        v = elems.pop(i)
        self._set(elems)
        return v

    def count(self, x):
        return self._concretize().count(self._elem(x))

    def reverse(self):
        elems = self._concretize()
        elems.reverse()
        self._set(elems)

    def clear(self):
        self.entries = []

    def __reversed__(self):
        return reversed(self._concretize())

    def __add__(self, o):
        return self._concretize() + [self._elem(x) for x in o]

    def __radd__(self, o):
        return [self._elem(x) for x in o] + self._concretize()

    def __iadd__(self, o):
        self.extend(o)
        return self

    # ---- checking support
    def guard_of(self, n):
        return Or([zb(g) for g, e in self.entries if e == n])

    def nonempty(self):
        return Or([zb(g) for g, _ in self.entries])

    def dup_free(self):
        by = {}
        for g, e in self.entries:
            by.setdefault(e, []).append(zb(g))
        cs = []
        for gs in by.values():
            gs = [g for g in gs if not is_lit_false(g)]
            if len(gs) > 1:
                cs.append(z3.AtMost(*gs, 1))
        return And(cs)

    def __repr__(self):
        return f"SymList({self.entries})"


class LazyIdMap:
    def __init__(self, ids, alive0, id0):
        """ids: node ids; alive0[i], id0[i]: pre-state liveness formula / id term (or None = no id)"""
        self.ids, self.alive0, self.id0 = list(ids), list(alive0), list(id0)
        self.mat = []  # [key term, SymList | None (absent), derived_presence: bool]

    def _find(self, k):
        ke = toint(k)
        if ke is None:
            raise Unsupported(f"LazyIdMap key {k!r}")
        for ent in self.mat:
            if cur().decide(ent[0] == ke):
                return ent
        lst = SymList([(And(zb(a), i0 == ke), n)
                       for n, a, i0 in zip(self.ids, self.alive0, self.id0) if i0 is not None])
        lst.entries = [(g, e) for g, e in lst.entries if not is_lit_false(g)]
        ent = [ke, lst, True]
        self.mat.append(ent)
        return ent

    def _present(self, ent):
        if ent[1] is None:
            return False
        if ent[2]:
            p = bool(ent[1])
            if p:
                ent[2] = False
            else:
                ent[1] = None
            return p
        return True

    def __contains__(self, k):
        return self._present(self._find(k))

    def __getitem__(self, k):
        ent = self._find(k)
        if not self._present(ent):
            raise KeyError(k)
        return ent[1]

    def get(self, k, default=None):
        ent = self._find(k)
        return ent[1] if self._present(ent) else default

    def __setitem__(self, k, v):
        ent = self._find(k)
        if isinstance(v, SymList):
            ent[1] = v
        else:
            l = SymList()
            l.extend(v)
            ent[1] = l
        ent[2] = False

    def __delitem__(self, k):
        ent = self._find(k)
        if not self._present(ent):
            raise KeyError(k)
        ent[1] = None

    def pop(self, k, *default):
        ent = self._find(k)
        if not self._present(ent):
            if default:
                return default[0]
            raise KeyError(k)
        v = ent[1]
        ent[1] = None
        return v

    def setdefault(self, k, default=None):
        ent = self._find(k)
        if not self._present(ent):
            self[k] = default if default is not None else []
        return ent[1]

    def __iter__(self):
        raise Unsupported("iteration over a lazily initialised id map")

    keys = values = items = __len__ = __iter__

    # ---- checking support
    def membership(self, k_expr, n):
        """formula: node n is listed under key k_expr (k_expr may be a fresh variable)"""
        i = self.ids.index(n)
        f = And(zb(self.alive0[i]), self.id0[i] == k_expr) if self.id0[i] is not None else z3.BoolVal(False)
        for ke, lst, _ in self.mat:
            g = z3.BoolVal(False) if lst is None else lst.guard_of(n)
            f = z3.If(ke == k_expr, g, f)
        return f

    def wellformed(self):
        """no duplicates and no present-but-empty entry among materialised entries"""
        cs = []
        for ke, lst, derived in self.mat:
            if lst is None:
                continue
            cs.append(lst.dup_free())
            if not derived:
                cs.append(lst.nonempty())
        return And(cs)
