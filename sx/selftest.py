"""Conformance self-test of the trusted base (part of setup_cmd): the symbolic models, filled with
CONCRETE values, are driven side by side with the real libraries and must agree call by call
(results and exception types); the contract stubs are compared with the real functions."""
from __future__ import annotations

import difflib
import random
import sys
import warnings

import networkx as nx
import numpy as np
import z3

from . import rt
from .arr import SArr
from .graph import SymDiGraph
from .maps import LazyIdMap, SymList


def _val(x):
    if isinstance(x, (rt.SInt, rt.SReal, rt.SBool)):
        e = z3.simplify(x.e)
        if z3.is_int_value(e):
            return e.as_long()
        if z3.is_true(e):
            return True
        if z3.is_false(e):
            return False
        if z3.is_rational_value(e):
            return float(e.as_fraction())
        raise AssertionError(f"non-concrete {x}")
    if isinstance(x, (np.integer,)):
        return int(x)
    if isinstance(x, (list, tuple)):
        return [_val(y) for y in x]
    return x


def _call(f):
    try:
        r = f()
        if hasattr(r, "__next__"):
            r = list(r)
        return ("ok", r)
    except Exception as e:
        return ("exc", type(e).__name__)


def graph_conformance(rnd, rounds=300):
    ids = list(range(1, 7))
    n_calls = 0
    for _ in range(rounds):
        real = nx.DiGraph()
        model = SymDiGraph(ids, fresh=False)
        for step in range(14):
            u, v = rnd.choice(ids + [9]), rnd.choice(ids + [9])
            w = rnd.choice(ids)
            op = rnd.choice(["add_node", "add_edge", "remove_node", "remove_edge", "remove_nodes_from",
                             "remove_edges_from", "add_nodes_from", "add_edges_from", "has_node", "has_edge", "succ",
                             "pred", "in_deg", "out_deg", "in_edges", "out_edges", "nodes", "edges", "len", "attr",
                             "contains", "edge_attr", "out_edges_list", "number", "degs"])
            calls = {
                "add_node": lambda g: g.add_node(u, t=step) if u != 9 else None,
                "add_edge": lambda g: g.add_edge(u, v, w=step) if 9 not in (u, v) else None,
                "remove_node": lambda g: g.remove_node(u),
                "remove_edge": lambda g: g.remove_edge(u, v),
                "remove_nodes_from": lambda g: g.remove_nodes_from([u, w]),
                "remove_edges_from": lambda g: g.remove_edges_from([(u, v), (w, u)]),
                "add_nodes_from": lambda g: g.add_nodes_from([w, (u, {"t": step})] if u != 9 else [w], k=1),
                "add_edges_from": lambda g: g.add_edges_from([(w, u), (u, v, {"w": step})] if 9 not in (u, v) else []),
                "has_node": lambda g: bool(g.has_node(u)),
                "has_edge": lambda g: bool(g.has_edge(u, v)),
                "succ": lambda g: list(g.successors(u)),  # iteration order = insertion order
                "pred": lambda g: sorted(g.predecessors(u)),
                "in_deg": lambda g: _val(g.in_degree(u)),
                "out_deg": lambda g: _val(g.out_degree(u)),
                "in_edges": lambda g: sorted(g.in_edges(u)),
                "out_edges": lambda g: list(g.out_edges(u)),
                "out_edges_list": lambda g: sorted(g.out_edges([u, v])),
                "nodes": lambda g: sorted(g.nodes()),
                "edges": lambda g: sorted(g.edges()),
                "len": lambda g: len(g),
                "attr": lambda g: dict(g.nodes[u]),
                "edge_attr": lambda g: dict(g.edges[u, v]),
                "contains": lambda g: (u in g, (u, v) in g.edges),
                "number": lambda g: (_val(g.number_of_nodes()), _val(g.number_of_edges())),
                "degs": lambda g: (sorted((a, _val(b)) for a, b in g.in_degree()),
                                   sorted((a, _val(b)) for a, b in g.out_degree())),
            }
            f = calls[op]
            a, b = _call(lambda: f(real)), _call(lambda: f(model))
            n_calls += 1
            if a != b:
                return n_calls, f"graph model disagrees on {op}({u},{v}): networkx {a}, model {b}"
        # library algorithms on the model by duck typing
        for src in ids:
            if src in real:
                if nx.ancestors(real, src) != nx.ancestors(model, src):
                    return n_calls, "nx.ancestors differs on the model"
        if sorted(map(sorted, nx.weakly_connected_components(real))) != sorted(
                map(sorted, nx.weakly_connected_components(model))):
            return n_calls, "weakly_connected_components differs on the model"
        cp = model.copy()
        if sorted(cp.nodes()) != sorted(real.nodes()) or sorted(cp.edges()) != sorted(real.edges()):
            return n_calls, "copy() differs"
    return n_calls, None


def arr_conformance(rnd, rounds=200):
    n = 0
    for _ in range(rounds):
        shape = rnd.choice([(3, 2), (2, 1, 2), (2, 2, 2)])
        real = np.array([rnd.randint(0, 3) for _ in range(int(np.prod(shape)))], dtype=np.int64).reshape(shape)
        c = np.empty(shape, dtype=object)
        for idx in np.ndindex(*shape):
            c[idx] = z3.IntVal(int(real[idx]))
        model = SArr(c)

        def conc(a):
            if isinstance(a, SArr):
                out = np.empty(a.c.shape, dtype=object)
                for idx in np.ndindex(*a.c.shape):
                    e = z3.simplify(a.c[idx])
                    out[idx] = bool(z3.is_true(e)) if z3.is_bool(e) else e.as_long()
                return out.tolist()
            if isinstance(a, np.ndarray):
                return a.tolist()
            if isinstance(a, tuple):
                return [conc(x) for x in a]
            return _val(a)

        v = rnd.randint(0, 3)
        t = rnd.randrange(shape[0])
        tests = [
            lambda a: conc(a[t] == v),
            lambda a: conc(np.sum(a[t] == v)),
            lambda a: conc(np.max(a)),
            lambda a: conc(np.where(a[t] == v, v, 0)),
            lambda a: conc(np.nonzero(a[t] == v)),
            lambda a: conc(np.isin(a, [1, v])),
            lambda a: conc(np.where(np.isin(a, [1, v]), a, 0)),
            lambda a: conc(np.zeros_like(a)),
            lambda a: conc(np.logical_and(a[0], a[-1])),
            lambda a: conc(a.flatten()),
            lambda a: conc(a.astype(np.uint64)),
            lambda a: conc(np.unique(a.flatten())),
            lambda a: conc(np.any(a[t] == v)),
        ]
        for f in tests:
            n += 1
            ra, rb = _call(lambda: f(real)), _call(lambda: f(model))
            if ra != rb:
                return n, f"array model disagrees: numpy {ra}, model {rb} on {real.tolist()}"
        # mutation through views and masks
        for a in (real, model):
            frame = a[t]
            frame[frame != 0] += 5
            a[t] = frame
            a[(np.array([0]),) + tuple(np.array([0]) for _ in shape[1:])] = 9
            a[t][a[t] == 9] = 4
        n += 1
        if conc(model) != real.tolist():
            return n, f"array model disagrees after mutation: numpy {real.tolist()} model {conc(model)}"
        # narrow integer dtypes wrap around: arithmetic, masked +=, astype, array-valued stores
        for dt in (np.uint8, np.int8, np.uint16, np.int32):
            hi = int(np.iinfo(dt).max)
            vals = [rnd.choice([0, 1, hi, hi - 1, hi // 2, rnd.randint(0, hi)]) for _ in range(6)]
            rn = np.array(vals, dtype=dt).reshape(3, 2)
            cc = np.empty((3, 2), dtype=object)
            for idx in np.ndindex(3, 2):
                cc[idx] = z3.IntVal(int(rn[idx]))
            mn = SArr(cc, dt)
            k = rnd.choice([1, 2, hi // 2, hi])
            big = np.array([hi + 1 + rnd.randint(0, 5), 3], dtype=np.int64)
            outs = []
            for a in (rn, mn):
                r1 = conc(a + k)
                r2 = conc(a * 2)
                fr = a[1]
                fr[fr != 0] += k
                a[1] = fr
                a[2] = big
                r3 = conc(a)
                r4 = conc(a.astype(np.int64).astype(dt))
                outs.append([r1, r2, r3, r4])
            n += 1
            if outs[0] != outs[1]:
                return n, f"narrow dtype {np.dtype(dt).name}: numpy {outs[0]}, model {outs[1]} (k={k}, start {vals})"
    return n, None


def maps_conformance(rnd, rounds=200):
    n = 0
    ids = list(range(1, 6))
    for _ in range(rounds):
        alive = [rnd.random() < 0.7 for _ in ids]
        key = [rnd.randint(1, 3) for _ in ids]
        real = {}
        for i, a, k in zip(ids, alive, key):
            if a:
                real.setdefault(k, []).append(i)
        model = LazyIdMap(ids, alive, [z3.IntVal(k) for k in key])
        for _ in range(10):
            k, x = rnd.randint(1, 4), rnd.choice(ids)
            op = rnd.choice(["in", "get", "remove", "append", "del", "set", "len", "list", "sort", "index", "delslice",
                             "delitem", "insert", "pop", "count", "reverse", "add", "setitem", "truth"])
            calls = {
                "in": lambda d: k in d,
                "get": lambda d: list(d.get(k) or []),
                "remove": lambda d: d[k].remove(x),
                "append": lambda d: d[k].append(x),
                "del": lambda d: d.__delitem__(k),
                "set": lambda d: d.__setitem__(k, [x]),
                "len": lambda d: len(d[k]),
                "list": lambda d: list(d[k]),
                "sort": lambda d: (d[k].sort(key=lambda q: -q), list(d[k]))[1],
                "index": lambda d: d[k].index(x),
                "delslice": lambda d: (d[k].__delitem__(slice(d[k].index(x), None)), list(d[k]))[1],
                "delitem": lambda d: (d[k].__delitem__(0), list(d[k]))[1],
                "insert": lambda d: (d[k].insert(0, x), list(d[k]))[1],
                "pop": lambda d: (d[k].pop(), list(d[k])),
                "count": lambda d: d[k].count(x),
                "reverse": lambda d: (d[k].reverse(), list(d[k]))[1],
                "add": lambda d: list(d[k] + [x]),
                "setitem": lambda d: (d[k].__setitem__(0, x), list(d[k]))[1],
                "truth": lambda d: bool(d.get(k)),
            }
            f = calls[op]
            n += 1
            a, b = _call(lambda: f(real)), _call(lambda: f(model))
            if a != b:
                return n, f"lookup model disagrees on {op}({k},{x}): dict {a}, model {b}"
    return n, None


def stubs_conformance(rnd, rounds=150):
    from scipy.spatial import KDTree

    from harness import candgraph, segstep

    n = 0
    for _ in range(rounds):
        shape = rnd.choice([(1, 2), (2, 2), (1, 3)])
        f1 = np.array([rnd.randint(0, 3) for _ in range(int(np.prod(shape)))], dtype=np.int64).reshape(shape)
        f2 = np.array([rnd.randint(0, 3) for _ in range(int(np.prod(shape)))], dtype=np.int64).reshape(shape)
        want = {}
        for a in range(1, 4):
            for b in range(1, 4):
                inter = int(np.sum((f1 == a) & (f2 == b)))
                if inter:
                    want[(a, b)] = inter / int(np.sum((f1 == a) | (f2 == b)))
        # (funtracks' own _compute_ious copies are NOT consulted here: they are checked against the same definition
        # by the kernel runs of C09 / C18, where a deviation is a VIOLATION and not a broken set-up)
        # the stub returns the same pairs with IOU(inter, union) terms
        segstep.Env.labels = (1, 2, 3)
        candgraph.LABELS = (1, 2, 3)

        def sarr(x):
            c = np.empty(x.shape, dtype=object)
            for idx in np.ndindex(*x.shape):
                c[idx] = z3.IntVal(int(x[idx]))
            return SArr(c)

        for stub in (segstep.iou_stub, candgraph.iou_stub):
            got = {}
            for a, b, v in stub(sarr(f1), sarr(f2)):
                e = z3.simplify(v.e)
                got[(a, b)] = (e.arg(0).as_long(), e.arg(1).as_long())
            n += 1
            if {k: i / u_ for k, (i, u_) in got.items()} != want:
                return n, f"iou stub disagrees: {got} vs {want}"
        # regionprops stub: one region per label present, in label order
        from skimage.measure import regionprops

        labs = [r.label for r in regionprops(f1)]
        got = [r.label for r in segstep.rp_stub(sarr(f1), None)]
        n += 1
        if labs != got:
            return n, f"regionprops stub labels {got} vs skimage {labs}"
        # KD-tree stub
        pts_a = [[rnd.randint(0, 4), rnd.randint(0, 4)] for _ in range(3)]
        pts_b = [[rnd.randint(0, 4), rnd.randint(0, 4)] for _ in range(3)]
        r = rnd.choice([0.5, 1.5, 2.5, 3.3])
        real = [sorted(x) for x in KDTree(pts_a).query_ball_tree(KDTree(pts_b), r)]
        got = [sorted(x) for x in candgraph.KD(pts_a).query_ball_tree(candgraph.KD(pts_b), r)]
        n += 1
        if real != got:
            return n, f"KD stub {got} vs scipy {real}"
    # what the regionprops stub abstracts: a value depends only on the label's own pixels and the spacing
    # (masked frame vs whole frame), area = pixel count x voxel size, centroid = mean coordinate x spacing
    from skimage.measure import regionprops as regionprops_extended  # (funtracks' wrapper: kernel run of C08)

    for _ in range(60):
        shape = rnd.choice([(4, 5), (3, 4, 4)])
        fr = np.array([rnd.choice([0, 0, 1, 2, 3]) for _ in range(int(np.prod(shape)))], dtype=np.int64).reshape(shape)
        sp = tuple(rnd.choice([1.0, 0.5, 2.0, 3.0]) for _ in shape)
        whole = {r.label: r for r in regionprops_extended(fr, spacing=sp)}
        for lab, r in whole.items():
            alone = regionprops_extended(np.where(fr == lab, lab, 0), spacing=sp)[0]
            coords = np.argwhere(fr == lab)
            n += 1
            if not np.isclose(r.area, len(coords) * np.prod(sp)) or not np.allclose(
                    r.centroid, coords.mean(axis=0) * np.array(sp)):
                return n, f"regionprops area/centroid differ from count x voxel / scaled mean on {fr.tolist()} {sp}"
            if not np.isclose(r.area, alone.area) or not np.allclose(r.centroid, alone.centroid):
                return n, "regionprops of a label depend on other labels in the frame"
    # difflib oracle axioms on real strings
    words = ["time", "Time", "t", "area", "Area", "x", "y", "pos", "seg_id", "segid", "Tracklet ID", "track_id", "iou"]
    for w in words:
        for cands in (words[:5], words[3:9], words):
            best = difflib.get_close_matches(w.lower(), [c.lower() for c in cands], n=1, cutoff=0.4)
            scores = {c.lower(): difflib.SequenceMatcher(None, c.lower(), w.lower()).ratio() for c in cands}
            n += 1
            ok = [c for c, s in scores.items() if s >= 0.4]
            if not ok:
                if best:
                    return n, "difflib returned a match below the cutoff"
                continue
            top = max(ok, key=lambda c: (scores[c], c))
            if not best or best[0] != top:
                return n, f"difflib oracle assumption broken: {w} in {cands}: {best} vs argmax {top}"
            if any((s == 1.0) != (c == w.lower()) for c, s in scores.items()):
                return n, "SequenceMatcher.ratio()==1 for different strings"
    return n, None


def fixture_scenario():
    """the repo's own fixture graph + an action script, once on the real stack and once on the models"""
    from funtracks.data_model import SolutionTracks
    from funtracks.user_actions import UserAddEdge, UserAddNode, UserDeleteEdge, UserDeleteNode, UserSwapPredecessors
    from harness import step
    from .explore import run_path

    nodes = {1: (0, 1, 1), 2: (1, 2, 1), 3: (1, 3, 1), 4: (2, 3, 1), 5: (4, 3, 1), 6: (4, 5, 2)}
    edges = [(1, 2), (1, 3), (3, 4), (4, 5)]
    script = [("del_edge", (3, 4)), ("add_edge", (3, 4)), ("del_node", 4), ("add_node", (7, 3, 3)), ("undo",),
              ("redo",), ("add_edge_force", (2, 4)), ("undo",), ("swap", (5, 6)), ("del_node", 1), ("undo",), ("undo",)]

    def run(tr):
        for op in script:
            try:
                if op[0] == "del_edge":
                    UserDeleteEdge(tr, op[1])
                elif op[0] == "add_edge":
                    UserAddEdge(tr, op[1])
                elif op[0] == "add_edge_force":
                    UserAddEdge(tr, op[1], force=True)
                elif op[0] == "del_node":
                    UserDeleteNode(tr, op[1])
                elif op[0] == "add_node":
                    n_, t, k = op[1]
                    UserAddNode(tr, n_, {"t": t, "track_id": k, "pos": [1.0, 2.0]})
                elif op[0] == "swap":
                    UserSwapPredecessors(tr, op[1])
                elif op[0] == "undo":
                    tr.undo()
                elif op[0] == "redo":
                    tr.redo()
            except Exception:
                pass

    def canon(tr):
        g = tr.graph
        ta = tr.track_annotator
        return (sorted(g.nodes()), sorted(g.edges()),
                {n: (_val(g.nodes[n]["t"]), _val(g.nodes[n]["track_id"]), _val(g.nodes[n]["lineage_id"]))
                 for n in g.nodes()}, _val(ta.max_tracklet_id), _val(ta.max_lineage_id))

    with warnings.catch_warnings():
        warnings.simplefilter("ignore")
        g = nx.DiGraph()
        for n_, (t, k, l_) in nodes.items():
            g.add_node(n_, t=t, track_id=k, lineage_id=l_, pos=[0.0, 0.0])
        g.add_edges_from(edges)
        real = SolutionTracks(g, ndim=3, time_attr="t", tracklet_attr="track_id", lineage_attr="lineage_id")
        run(real)
        want = canon(real)
        out = {}

        def h(ctx, cfg):
            ids = list(range(1, 8))
            m = SymDiGraph(ids, fresh=False, sym_order=False)
            for n_, (t, k, l_) in nodes.items():
                m.alive[n_ - 1] = True
                m.nattr[n_ - 1] = {"t": rt.SInt(t), "track_id": rt.SInt(k), "lineage_id": rt.SInt(l_),
                                   "pos": [0.0, 0.0]}
            for u, v in edges:
                m.E[u - 1][v - 1] = True
            tr = SolutionTracks(nx.DiGraph(), ndim=3, time_attr="t", tracklet_attr="track_id",
                                lineage_attr="lineage_id")
            tr.graph = m
            ta = tr.track_annotator
            al = [i in nodes for i in ids]
            ta.tracklet_id_to_nodes = LazyIdMap(ids, al, [z3.IntVal(nodes.get(i, (0, 0, 0))[1]) for i in ids])
            ta.lineage_id_to_nodes = LazyIdMap(ids, al, [z3.IntVal(nodes.get(i, (0, 0, 0))[2]) for i in ids])
            ta.max_tracklet_id, ta.max_lineage_id = rt.SInt(5), rt.SInt(2)
            run(tr)
            out["got"] = canon(tr)

        ctx, status, err = run_path(h, {}, [], [])
        if status != "ok":
            return f"fixture scenario on the models: {status} {err}"
        if out["got"] != want:
            return f"fixture scenario differs: real {want}, models {out['got']}"
    return None


def frame_conformance(rnd, rounds=120):
    """CSVTracksBuilder.load_source on concrete node tables: through real pandas and through the cell-wise
    DataFrame model of harness/importer.py; the resulting in-memory GEFF (ids, edges, property arrays) must agree"""
    import warnings

    import numpy as np
    import pandas as pd

    from harness import importer
    from funtracks.import_export.csv._import import CSVTracksBuilder

    n = 0
    for _ in range(rounds):
        rows = rnd.randint(1, 5)
        strings = rnd.random() < 0.4
        pool = ["a", "b", "c", "d", "e", "zz"] if strings else [0, 1, 2, 5, 9, 11]
        ids = [rnd.choice(pool[:-1]) for _ in range(rows)] if rnd.random() < 0.2 else rnd.sample(pool[:-1], rows)
        none_codes = [float("nan"), ""] if strings else [float("nan"), -1]
        parents = [rnd.choice(ids + [pool[-1]] + none_codes + none_codes) for _ in range(rows)]
        data = {"id": ids, "parent_id": parents, "t": [rnd.randint(0, 5) for _ in range(rows)],
                "y": [rnd.random() * 10 for _ in range(rows)], "x": [rnd.random() * 10 for _ in range(rows)],
                "c": [rnd.randint(-3, 3) for _ in range(rows)]}
        idc, pc = rnd.choice([("id", "parent_id"), ("node", "mother")])
        data = {({"id": idc, "parent_id": pc}.get(k, k)): v for k, v in data.items()}
        nm = {"id": idc, "parent_id": pc, "time": "t", "pos": rnd.choice([["y", "x"], ["x", "y"]]), "c": "c"}
        # row labels: default, permuted, or with gaps (a sorted / filtered table)
        index = rnd.choice([None, None, rnd.sample(range(rows), rows), rnd.sample(range(0, 12), rows)])
        out = []
        for model in (False, True):
            b = CSVTracksBuilder()
            try:
                with warnings.catch_warnings():
                    warnings.simplefilter("ignore")
                    if model:
                        importer.install_csv()
                        src = importer._Frame({k: [importer.NA if (isinstance(v, float) and v != v) else v for v in vs]
                                               for k, vs in data.items()}, index)
                    else:
                        src = pd.DataFrame(data, index=index)
                    try:
                        b.load_source(src, dict(nm), None)
                    finally:
                        if model:
                            importer.remove_csv()
                g = b.in_memory_geff
                out.append(("ok", np.asarray(g["node_ids"]).tolist(), np.asarray(g["edge_ids"]).tolist(),
                            {k: np.asarray(v["values"]).tolist() for k, v in sorted(g["node_props"].items())}, b.ndim))
            except Exception as e:  # noqa: BLE001
                out.append(("raised", type(e).__name__))
        n += 1
        if out[0] != out[1]:
            return n, f"table {data} index {index} map {nm}: pandas -> {out[0]}, model -> {out[1]}"
    return n, None


def main():
    rnd = random.Random(20261001)
    rt.set_cur(rt.Ctx())
    total = 0
    try:
        for name, f in (("graph", graph_conformance), ("array", arr_conformance), ("lookups", maps_conformance),
                        ("stubs", stubs_conformance)):
            n, err = f(rnd)
            total += n
            print(f"selftest {name}: {n} comparisons" + (f" FAILED: {err}" if err else " ok"))
            if err:
                return 3
    finally:
        rt.set_cur(None)
    # The scenario executes funtracks' own actions (on the real stack and on the models).  On the pinned tree both
    # runs end in the same state; on a CHANGED tree a difference can come from the change itself (e.g. new code that
    # uses a graph API the model lacks), which must surface as the affected properties' verdicts, not as a broken
    # set-up: reported, not fatal.  (A wrong model cannot cause a false VIOLATION - every counterexample is replayed
    # on the real stack - only a miss or an inconclusive run.)
    try:
        err = fixture_scenario()
    except Exception as e:  # noqa: BLE001
        err = f"{type(e).__name__}: {e}"
    print("selftest fixture scenario: " + (f"DIFFERS (reported, not fatal): {err}" if err else "ok"))
    return 0


if __name__ == "__main__":
    sys.exit(main())
