"""Representation-invariant and property formulas over a SymDiGraph state (DESIGN 3.3)."""
from __future__ import annotations

import z3

from .rt import And, Or, Not, Implies, count, zb, toint


def closure(n, edge):
    """reflexive-symmetric-transitive closure of edge(i,j) over n slots (unrolled Warshall)"""
    conn = [[z3.BoolVal(True) if i == j else Or(edge(i, j), edge(j, i)) for j in range(n)] for i in range(n)]
    for k in range(n):
        conn = [[Or(conn[i][j], And(conn[i][k], conn[k][j])) for j in range(n)] for i in range(n)]
    return conn


class Shape:
    """frozen view of alive / adjacency formulas of a graph model at one instant"""

    def __init__(self, g):
        self.n = g.N
        self.ids = list(g.ids)
        self.al = [zb(a) for a in g.alive]
        self.A = [[zb(g.E[i][j]) for j in range(g.N)] for i in range(g.N)]
        self.outdeg = [count(self.A[i][j] for j in range(self.n)) for i in range(self.n)]
        self.indeg = [count(self.A[i][j] for i in range(self.n)) for j in range(self.n)]
        self._comp = None
        self._seg = None

    def comp(self):
        if self._comp is None:
            self._comp = closure(self.n, lambda i, j: self.A[i][j])
        return self._comp

    def seg(self):
        if self._seg is None:
            self._seg = closure(self.n, lambda i, j: And(self.A[i][j], self.outdeg[i] == 1))
        return self._seg


def attr_terms(g, key, default=None):
    """per-slot z3 term of an integer attribute (None where absent)"""
    out = []
    for s in range(g.N):
        v = g.nattr[s].get(key)
        out.append(toint(v) if v is not None else default)
    return out


def forest(sh: Shape):
    n = sh.n
    return {
        "edges_alive": And([Implies(sh.A[i][j], And(sh.al[i], sh.al[j])) for i in range(n) for j in range(n)]),
        "indeg_le_1": And([sh.indeg[i] <= 1 for i in range(n)]),
        "outdeg_le_2": And([sh.outdeg[i] <= 2 for i in range(n)]),
    }


def forward(sh: Shape, tm):
    n = sh.n
    cs = []
    for i in range(n):
        for j in range(n):
            if tm[i] is None or tm[j] is None:
                cs.append(Not(sh.A[i][j]))
            else:
                cs.append(Implies(sh.A[i][j], tm[i] < tm[j]))
    return And(cs)


def has_all(sh: Shape, vals):
    """every alive slot carries the attribute"""
    return And([Not(sh.al[i]) for i in range(sh.n) if vals[i] is None])


def partition_local(sh: Shape, ids, same_edge):
    """local form (valid on forests): edge in the relation => equal id; two alive heads => different ids.
    same_edge(p, c) says edge p->c keeps the id."""
    n = sh.n
    has_par = [Or([And(sh.A[p][i], same_edge(p, i)) for p in range(n) if p != i]) for i in range(n)]
    cs = []
    for p in range(n):
        for c in range(n):
            if p != c:
                cs.append(Implies(And(sh.A[p][c], same_edge(p, c)), ids[p] == ids[c]))
    for i in range(n):
        for j in range(i + 1, n):
            cs.append(Implies(And(sh.al[i], sh.al[j], Not(has_par[i]), Not(has_par[j])), ids[i] != ids[j]))
    return And(cs)


def partition_exact(sh: Shape, ids, rel):
    """exact form: for alive i<j, ids equal <=> related (rel = closure matrix)"""
    n = sh.n
    cs = []
    for i in range(n):
        for j in range(i + 1, n):
            if ids[i] is None or ids[j] is None:
                cs.append(Not(And(sh.al[i], sh.al[j])))
            else:
                cs.append(Implies(And(sh.al[i], sh.al[j]), (ids[i] == ids[j]) == rel[i][j]))
    return And(cs)
