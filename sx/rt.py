"""Path-forking symbolic runtime over z3.

The subject code (funtracks, imported from /repo/src) runs in CPython on proxy
values.  Whenever it branches on a proxy the runtime asks z3 which outcomes are
feasible under the current path condition and forks.  Exploration is depth-first
*re-execution*: a path is identified by its decision prefix and replayed from the
start (no solver calls while replaying the prefix).

Only `Exception` may be caught by harness code: the control-flow signals used
here (`PathAbort`, `Unsupported`) derive from BaseException.
"""
from __future__ import annotations

import os
import sys
import time as _time

import z3

z3.set_param("model.completion", True)


class PathAbort(BaseException):
    """Path condition became infeasible (an assumption cannot be met)."""


class Unsupported(BaseException):
    """The subject code reached something the models do not cover: the run is
    inconclusive (never a pass, never a violation)."""


class ReplayDivergence(Unsupported):
    """Re-execution of a decision prefix met a different decision: inconclusive."""


SOLVER_TIMEOUT_MS = 60_000
MAX_CONCRETIZE = 128
UNBOUNDED_LIMIT = 10**6


def zb(x):
    if isinstance(x, bool):
        return z3.BoolVal(x)
    return x


def is_lit_true(e):
    return e is True or (z3.is_expr(e) and z3.is_true(e))


def is_lit_false(e):
    return e is False or (z3.is_expr(e) and z3.is_false(e))


def And(*xs):
    """constant-folding conjunction over python bools / z3 Bools"""
    if len(xs) == 1 and isinstance(xs[0], (list, tuple)):
        xs = xs[0]
    out = []
    for x in xs:
        if is_lit_false(x):
            return z3.BoolVal(False)
        if is_lit_true(x):
            continue
        out.append(x)
    if not out:
        return z3.BoolVal(True)
    if len(out) == 1:
        return out[0]
    return z3.And(out)


def Or(*xs):
    if len(xs) == 1 and isinstance(xs[0], (list, tuple)):
        xs = xs[0]
    out = []
    for x in xs:
        if is_lit_true(x):
            return z3.BoolVal(True)
        if is_lit_false(x):
            continue
        out.append(x)
    if not out:
        return z3.BoolVal(False)
    if len(out) == 1:
        return out[0]
    return z3.Or(out)


def Not(x):
    if is_lit_true(x):
        return z3.BoolVal(False)
    if is_lit_false(x):
        return z3.BoolVal(True)
    return z3.Not(x)


def Implies(a, b):
    return Or(Not(a), b)


def If(c, a, b):
    if is_lit_true(c):
        return a
    if is_lit_false(c):
        return b
    return z3.If(c, a, b)


def count(bs):
    """number of true formulas, as an Int term"""
    terms = []
    k = 0
    for b in bs:
        if is_lit_true(b):
            k += 1
        elif is_lit_false(b):
            continue
        else:
            terms.append(z3.If(b, 1, 0))
    if not terms:
        return z3.IntVal(k)
    s = z3.Sum(terms) if len(terms) > 1 else terms[0]
    return s + k if k else s


_SX_DIR = __file__.rsplit("/", 1)[0]


def _site():
    """Fingerprint of a decision = call site (first frame outside the runtime/model package).
    Term hashes are not usable: z3.simplify orders commutative arguments by AST id, which depends
    on the history of the (forked) process."""
    f = sys._getframe(2)
    while f is not None and f.f_code.co_filename.startswith(_SX_DIR):
        f = f.f_back
    if f is None:
        return 0
    return hash_str(f.f_code.co_filename) ^ (f.f_lineno * 2654435761 & 0xFFFFFFFF)


_HS = {}


def hash_str(s):
    h = _HS.get(s)
    if h is None:
        h = 0
        for ch in s:
            h = (h * 131 + ord(ch)) & 0xFFFFFFFF
        _HS[s] = h
    return h


CROSS_EVERY = int(os.environ.get("VERIF_CROSS_EVERY", "0") or 0)
_cross_counter = [0]


def cross_check(assertions, neg, z3_sat):
    """second opinion: the same query (path condition AND NOT obligation) through SMT-LIB to the cvc5 binary"""
    import subprocess
    import tempfile

    s2 = z3.Solver()
    s2.add(assertions)
    s2.add(neg)
    txt = "(set-logic ALL)\n" + s2.to_smt2()
    with tempfile.NamedTemporaryFile("w", suffix=".smt2", delete=True) as f:
        f.write(txt)
        f.flush()
        try:
            r = subprocess.run(["cvc5", "--lang", "smt2", "--tlimit", "20000", f.name], capture_output=True,
                               text=True, timeout=40)
        except Exception as e:
            return "unknown", f"cvc5 failed: {e}"
    out = r.stdout.strip().splitlines()
    verdict = out[0] if out else "unknown"
    if "(error" in r.stdout or verdict not in ("sat", "unsat"):
        return "unknown", (r.stdout + r.stderr)[-200:]
    return ("agree" if (verdict == "sat") == z3_sat else "disagree"), verdict


class Ctx:
    """One execution path."""

    def __init__(self, prefix=(), known=None):
        self.prefix = list(prefix)
        self.decisions = []  # (kind, value, fingerprint)
        self.alts = []  # alternative prefixes discovered on this path
        self.solver = z3.Solver()
        self.solver.set("timeout", SOLVER_TIMEOUT_MS)
        self.nsolve = 0
        self.solve_s = 0.0
        self.model = None
        self.results = []  # (obligation name, status) status in ok|fail|known:<id>
        self.failures = []  # dicts
        self.tags = []
        self.inputs = {}  # name -> z3 expr / python value, for counterexample extraction
        self.env = {}  # name -> object, namespace for known-finding predicates
        self.known = known or []  # list of dict(id, property, harness, obligation, where)
        self.notes = {}
        self.allow_realise = False  # harnesses with small finite cell domains switch this on
        self.prefs = []  # soft preferences for counterexample models (see prefer)
        self.last = self.solver
        self.cross = []  # (obligation, outcome) of sampled second-opinion queries

    # ------------------------------------------------------------ solver
    def add(self, c):
        if is_lit_true(c):
            return
        c = zb(c)
        self.solver.add(c)
        if self.model is not None and not z3.is_true(self.model.eval(c, model_completion=True)):
            self.model = None

    def _check(self, *extra):
        self.nsolve += 1
        t0 = _time.perf_counter()
        r = self.solver.check(*extra)
        self.last = self.solver
        if r == z3.unknown:
            # one retry with a fresh solver and a longer budget (a loaded machine must not turn a
            # decidable query into an inconclusive run)
            s2 = z3.Solver()
            s2.set("timeout", SOLVER_TIMEOUT_MS * 4)
            s2.add(self.solver.assertions())
            r = s2.check(*extra)
            self.last = s2
        self.solve_s += _time.perf_counter() - t0
        if r == z3.unknown:
            raise Unsupported("solver returned unknown: " + self.solver.reason_unknown())
        return r == z3.sat

    def feasible(self):
        if self.model is not None:
            return True
        if self._check():
            self.model = self.last.model()
            return True
        return False

    def assume(self, c):
        c = unwrap(c)
        if is_lit_true(c):
            return
        if is_lit_false(c):
            raise PathAbort()
        self.add(c)
        if not self.feasible():
            raise PathAbort()

    # ------------------------------------------------------------ decisions
    def _replay(self, kind, fp):
        """next decision from the prefix, or None when past it"""
        i = len(self.decisions)
        if i < len(self.prefix):
            k, v, f = self.prefix[i]
            if k != kind or f != fp:
                raise ReplayDivergence(f"decision {i}: recorded {k}/{f}, met {kind}/{fp}")
            return (v,)
        return None

    def decide(self, cond):
        """cond: z3 Bool (or python bool) -> python bool; forks when both sides feasible"""
        if isinstance(cond, bool):
            return cond
        if z3.is_true(cond):
            return True
        if z3.is_false(cond):
            return False
        fp = _site()
        cond = z3.simplify(cond)
        if z3.is_true(cond):
            return True
        if z3.is_false(cond):
            return False
        r = self._replay("b", fp)
        if r is not None:
            v = r[0]
            self.decisions.append(("b", v, fp))
            self.add(cond if v else z3.Not(cond))
            return v
        if not self.feasible():
            raise PathAbort()
        mv = z3.is_true(self.model.eval(cond, model_completion=True))
        other = z3.Not(cond) if mv else cond
        if self._check(other):
            # both feasible: take the model's side, queue the other
            self.alts.append(self.decisions + [("b", not mv, fp)])
            self.decisions.append(("b", mv, fp))
            self.add(cond if mv else z3.Not(cond))
            return mv
        # only the model's side is feasible: recorded (so that replay needs no solver
        # call) but no alternative is queued
        self.decisions.append(("b", mv, fp))
        self.solver.add(cond if mv else z3.Not(cond))
        return mv

    def concretize(self, expr):
        """z3 Int term -> python int; forks over the feasible values (finite domains only)"""
        if isinstance(expr, int):
            return expr
        fp = _site()
        expr = z3.simplify(expr)
        if z3.is_int_value(expr):
            return expr.as_long()
        tried = 0
        while True:
            r = self._replay("v", fp)
            if r is not None:
                op, v = r[0]
                self.decisions.append(("v", (op, v), fp))
                if op == "eq":
                    self.add(expr == v)
                    return v
                self.add(expr != v)
                tried += 1
                continue
            if not self.feasible():
                raise PathAbort()
            if tried == 0 and self._check(z3.Or(expr > UNBOUNDED_LIMIT, expr < -UNBOUNDED_LIMIT)):
                # fail fast instead of enumerating 64 values at every concretisation point
                raise Unsupported(f"concretisation of an unbounded term: {expr}")
            v = self.model.eval(expr, model_completion=True).as_long()
            tried += 1
            if tried > MAX_CONCRETIZE:
                raise Unsupported(f"concretisation of a term with more than {MAX_CONCRETIZE} values: {expr}")
            if self._check(expr != v):
                self.alts.append(self.decisions + [("v", ("ne", v), fp)])
            self.decisions.append(("v", ("eq", v), fp))
            self.add(expr == v)
            return v

    def choose(self, n, label=""):
        """nondeterministic choice of an index in range(n) (engine-level case split)"""
        if n <= 0:
            raise PathAbort()
        if n == 1:
            return 0
        fp = (n * 1000003 + sum(map(ord, label))) & 0x7FFFFFFF
        r = self._replay("c", fp)
        if r is not None:
            v = r[0]
            self.decisions.append(("c", v, fp))
            return v
        for alt in range(n - 1, 0, -1):
            self.alts.append(self.decisions + [("c", alt, fp)])
        self.decisions.append(("c", 0, fp))
        return 0

    # ------------------------------------------------------------ reporting
    def tag(self, t):
        self.tags.append(t)

    def input(self, name, expr):
        self.inputs[name] = expr

    def _model_inputs(self, model):
        out = {}
        for k, v in self.inputs.items():
            out[k] = model_value(model, v)
        return out

    def diverse_instance(self):
        """A concrete member of this path whose numeric inputs are as 'generic' as the path condition allows: real
        inputs pairwise different with a fractional part, integer inputs pairwise different and non-zero where
        possible (an all-zero model hides value-dependent defects).  Used by the concrete fall-back only."""
        leaves = []

        def walk(v):
            if isinstance(v, (SInt, SBool, SReal)):
                v = v.e
            if z3.is_expr(v):
                if z3.is_const(v) and v.decl().kind() == z3.Z3_OP_UNINTERPRETED and not z3.is_bool(v):
                    leaves.append(v)
            elif isinstance(v, dict):
                for x in v.values():
                    walk(x)
            elif isinstance(v, (list, tuple)):
                for x in v:
                    walk(x)

        walk(list(self.inputs.values()))
        seen, uniq = set(), []
        for v in leaves:
            if v.get_id() not in seen:
                seen.add(v.get_id())
                uniq.append(v)
        reals = [v for v in uniq if z3.is_real(v)]
        ints = [v for v in uniq if z3.is_int(v)]
        # greedy: keep every genericity constraint that leaves the path condition satisfiable
        kept = []

        def try_add(c):
            try:
                if self._check(*(kept + [c])):
                    kept.append(c)
                    return True
            except BaseException:  # noqa: BLE001
                pass
            return False

        budget = 80
        for v in reals:
            # (dyadic: exact as floats and as text)
            try_add(z3.And(z3.Not(z3.IsInt(v)), z3.IsInt(4 * v), v > 1))
        for v in ints:
            try_add(v != 0)
        pairs = [(a, b) for i, a in enumerate(reals) for b in reals[i + 1:]] + \
                [(a, b) for i, a in enumerate(ints) for b in ints[i + 1:]]
        for a, b in pairs[:budget]:
            try_add(a != b)
        if kept:
            try:
                if self._check(*kept):
                    return self._model_inputs(self.last.model())
            except BaseException:  # noqa: BLE001
                pass
        if self.feasible():
            return self._model_inputs(self.model)
        return None

    def oblige(self, name, claim, prop=None, harness=None):
        """Record a proof obligation `pc => claim` and discharge it now."""
        claim = unwrap(claim)
        if is_lit_true(claim):
            self.results.append((name, "ok"))
            return True
        claim = zb(claim)
        neg = z3.Not(claim)
        holds = not self._check(neg)
        if CROSS_EVERY:
            # deterministic sample over (obligation, path): independent of how paths are spread over workers
            h = hash_str(name) ^ (len(self.decisions) * 2654435761)
            for _, v, fp in self.decisions[-6:]:
                h = (h * 31 + fp + (1 if v is True else 0)) & 0xFFFFFFFF
            h = ((h * 2654435761) & 0xFFFFFFFF) >> 8
            if h % CROSS_EVERY == 0:
                self.cross.append((name,) + cross_check(self.solver.assertions(), neg, not holds))
        if holds:
            self.results.append((name, "ok"))
            return True
        # the obligation fails on this path; split by known findings
        ks = [k for k in self.known
              if k.get("status", "open") == "open"
              and (k.get("obligation") in (None, name) or name in k.get("obligations", ()))
              and (prop is None or k.get("property") in (None, prop))]
        kforms = []
        for k in ks:
            try:
                f = eval(k["where"], {"z3": z3, "And": And, "Or": Or, "Not": Not}, self.env)  # noqa: S307
            except Exception as e:  # a predicate that cannot be evaluated here does not apply
                if not isinstance(e, (KeyError, NameError, IndexError, TypeError, AttributeError)):
                    raise
                continue
            f = unwrap(f)
            kforms.append((k, zb(f)))
        hit = False
        for k, f in kforms:
            if is_lit_false(f):
                continue
            if self._check(neg, f):
                m = self.last.model()
                self.failures.append(dict(obligation=name, known=k["id"], inputs=self._model_inputs(m),
                                          tags=list(self.tags)))
                self.results.append((name, "known:" + k["id"]))
                hit = True
        rest = [z3.Not(f) for _, f in kforms if not is_lit_false(f)]
        if self._check(neg, *rest):
            m = self.last.model()
            # prefer a DIVERSE counterexample (e.g. voxel sizes different from 1 and from each other): a solver's
            # default values (all 0 / all 1) often hide a deviation when the model is replayed on the real stack
            for k in range(len(self.prefs), 0, -1):
                if self._check(neg, *rest, *self.prefs[:k]):
                    m = self.last.model()
                    break
            self.failures.append(dict(obligation=name, known=None, inputs=self._model_inputs(m),
                                      tags=list(self.tags)))
            self.results.append((name, "fail"))
            return False
        if not hit:  # cannot happen: neg sat but neither split sat
            raise Unsupported("inconsistent known-finding split")
        return False

    def prefer(self, formula):
        """soft preference for counterexample models (never part of the path condition, never affects a verdict)"""
        self.prefs.append(zb(unwrap(formula)))

    def witness(self, name, formula):
        """reachability twin: `pc and formula` must be satisfiable (recorded as tag)"""
        if self._check(zb(unwrap(formula))):
            self.tags.append("witness:" + name)
            return True
        return False


def model_value(model, v):
    if isinstance(v, (SInt, SBool, SReal)):
        v = v.e
    if z3.is_expr(v):
        r = model.eval(v, model_completion=True)
        if z3.is_int_value(r):
            return r.as_long()
        if z3.is_true(r):
            return True
        if z3.is_false(r):
            return False
        if z3.is_rational_value(r):
            return [r.numerator_as_long(), r.denominator_as_long()]
        if z3.is_algebraic_value(r):
            return float(r.approx(20).as_fraction())
        return str(r)
    if isinstance(v, dict):
        return {k: model_value(model, x) for k, x in v.items()}
    if isinstance(v, (list, tuple)):
        return [model_value(model, x) for x in v]
    return v


_cur: Ctx | None = None


def cur() -> Ctx:
    if _cur is None:
        raise RuntimeError("no active symbolic context")
    return _cur


def set_cur(c):
    global _cur
    _cur = c


def unwrap(x):
    if isinstance(x, (SBool, SInt, SReal)):
        return x.e
    return x


# ---------------------------------------------------------------- proxies
class SBool:
    __slots__ = ("e",)

    def __init__(self, e):
        self.e = zb(e)

    def __bool__(self):
        return cur().decide(self.e)

    def __and__(self, o):
        return SBool(And(self.e, tobool(o)))

    __rand__ = __and__

    def __or__(self, o):
        return SBool(Or(self.e, tobool(o)))

    __ror__ = __or__

    def __invert__(self):
        return SBool(Not(self.e))

    def __eq__(self, o):
        return SBool(self.e == tobool(o))

    def __ne__(self, o):
        return SBool(self.e != tobool(o))

    def __hash__(self):
        return hash(bool(self))

    def __repr__(self):
        return f"SBool({self.e})"


def tobool(o):
    if isinstance(o, SBool):
        return o.e
    if isinstance(o, bool):
        return z3.BoolVal(o)
    if z3.is_expr(o) and z3.is_bool(o):
        return o
    import numpy as np

    if isinstance(o, np.bool_):
        return z3.BoolVal(bool(o))
    raise Unsupported(f"tobool {type(o)}")


def toint(o):
    """python/numpy/proxy integer -> z3 Int term, or None if not an integer-like"""
    if isinstance(o, SInt):
        return o.e
    if isinstance(o, bool):
        return z3.IntVal(int(o))
    if isinstance(o, int):
        return z3.IntVal(o)
    import numpy as np

    if isinstance(o, np.integer):
        return z3.IntVal(int(o))
    if isinstance(o, np.bool_):
        return z3.IntVal(int(o))
    if isinstance(o, SBool):
        return z3.If(o.e, 1, 0)
    return None


def tonum(o):
    """number-like -> z3 arithmetic term (Int or Real) or None"""
    if isinstance(o, SReal):
        return o.e
    r = toint(o)
    if r is not None:
        return r
    if isinstance(o, float):
        from fractions import Fraction

        f = Fraction(o).limit_denominator(10**9)
        return z3.RealVal(f"{f.numerator}/{f.denominator}")
    import numpy as np

    if isinstance(o, np.floating):
        return tonum(float(o))
    return None


class SInt:
    __slots__ = ("e",)

    def __init__(self, e):
        self.e = z3.IntVal(e) if isinstance(e, int) else e

    def _bin(self, o, f):
        if isinstance(o, SReal) or isinstance(o, float):
            return f_real(self, o, f)
        oe = toint(o)
        if oe is None:
            return NotImplemented
        return SInt(f(self.e, oe))

    def _cmp(self, o, f):
        oe = tonum(o)
        if oe is None:
            return NotImplemented
        return SBool(f(self.e, oe))

    def __add__(self, o):
        return self._bin(o, lambda a, b: a + b)

    __radd__ = __add__

    def __sub__(self, o):
        return self._bin(o, lambda a, b: a - b)

    def __rsub__(self, o):
        return self._bin(o, lambda a, b: b - a)

    def __mul__(self, o):
        return self._bin(o, lambda a, b: a * b)

    __rmul__ = __mul__

    def __truediv__(self, o):
        return SReal(z3.ToReal(self.e)) / o

    def __rtruediv__(self, o):
        return SReal(tonum(o) if not z3.is_int(tonum(o)) else z3.ToReal(tonum(o))) / self

    def __neg__(self):
        return SInt(-self.e)

    def __pos__(self):
        return self

    def __lt__(self, o):
        return self._cmp(o, lambda a, b: a < b)

    def __le__(self, o):
        return self._cmp(o, lambda a, b: a <= b)

    def __gt__(self, o):
        return self._cmp(o, lambda a, b: a > b)

    def __ge__(self, o):
        return self._cmp(o, lambda a, b: a >= b)

    def __eq__(self, o):
        oe = tonum(o)
        if oe is None:
            return False
        return SBool(self.e == oe)

    def __ne__(self, o):
        oe = tonum(o)
        if oe is None:
            return True
        return SBool(self.e != oe)

    def __hash__(self):
        return hash(cur().concretize(self.e))

    def __index__(self):
        return cur().concretize(self.e)

    def __int__(self):
        return cur().concretize(self.e)

    def __bool__(self):
        return cur().decide(self.e != 0)

    def item(self):
        return self

    tolist = item  # numpy scalar API: the Python value of a symbolic scalar is the symbolic scalar

    def __repr__(self):
        return f"SInt({z3.simplify(self.e)})"

    __str__ = __repr__

    def __format__(self, spec):
        return repr(self)


def _toreal(e):
    return z3.ToReal(e) if z3.is_int(e) else e


def f_real(a, b, f):
    return SReal(f(_toreal(tonum(a)), _toreal(tonum(b))))


class SReal:
    __slots__ = ("e",)

    def __init__(self, e):
        self.e = _toreal(e)

    def _bin(self, o, f):
        oe = tonum(o)
        if oe is None:
            return NotImplemented
        return SReal(f(self.e, _toreal(oe)))

    def _cmp(self, o, f):
        oe = tonum(o)
        if oe is None:
            return NotImplemented
        return SBool(f(self.e, _toreal(oe)))

    def __add__(self, o):
        return self._bin(o, lambda a, b: a + b)

    __radd__ = __add__

    def __sub__(self, o):
        return self._bin(o, lambda a, b: a - b)

    def __rsub__(self, o):
        return self._bin(o, lambda a, b: b - a)

    def __mul__(self, o):
        return self._bin(o, lambda a, b: a * b)

    __rmul__ = __mul__

    def __truediv__(self, o):
        return self._bin(o, lambda a, b: a / b)

    def __rtruediv__(self, o):
        return self._bin(o, lambda a, b: b / a)

    def __neg__(self):
        return SReal(-self.e)

    def __lt__(self, o):
        return self._cmp(o, lambda a, b: a < b)

    def __le__(self, o):
        return self._cmp(o, lambda a, b: a <= b)

    def __gt__(self, o):
        return self._cmp(o, lambda a, b: a > b)

    def __ge__(self, o):
        return self._cmp(o, lambda a, b: a >= b)

    def __eq__(self, o):
        oe = tonum(o)
        if oe is None:
            return False
        return SBool(self.e == _toreal(oe))

    def __ne__(self, o):
        oe = tonum(o)
        if oe is None:
            return True
        return SBool(self.e != _toreal(oe))

    __hash__ = None

    def __float__(self):
        raise Unsupported("float() of a symbolic real")

    def item(self):
        return self

    tolist = item

    def __bool__(self):
        return cur().decide(self.e != 0)

    def __repr__(self):
        return f"SReal({z3.simplify(self.e)})"

    def __format__(self, spec):
        return repr(self)


class _IntShimMeta(type):
    def __instancecheck__(cls, inst):
        return isinstance(inst, (int, SInt))


class int_shim(metaclass=_IntShimMeta):
    """Replacement for the builtin name `int` inside funtracks module namespaces:
    passes SInt through (so `int(time)` does not enumerate time values)."""

    def __new__(cls, x=0, *a):
        if isinstance(x, SInt):
            return x
        return int(x, *a)


class _FloatShimMeta(type):
    def __instancecheck__(cls, inst):
        return isinstance(inst, (float, SReal))


class float_shim(metaclass=_FloatShimMeta):
    def __new__(cls, x=0.0):
        if isinstance(x, SReal):
            return x
        if isinstance(x, SInt):
            return SReal(x.e)
        return float(x)


def same_value(a, b):
    """formula: two attribute observations are equal (None == missing)"""
    if a is None or b is None:
        return z3.BoolVal(a is None and b is None)
    if isinstance(a, (list, tuple)) or isinstance(b, (list, tuple)):
        if not (isinstance(a, (list, tuple)) and isinstance(b, (list, tuple))) or len(a) != len(b):
            return z3.BoolVal(False)
        return And([same_value(x, y) for x, y in zip(a, b)])
    ae, be = tonum(a), tonum(b)
    if ae is not None and be is not None:
        if z3.is_int(ae) != z3.is_int(be):
            ae, be = _toreal(ae), _toreal(be)
        return z3.simplify(ae == be) if (z3.is_int_value(ae) or z3.is_rational_value(ae)) and (
            z3.is_int_value(be) or z3.is_rational_value(be)) else ae == be
    if isinstance(a, SBool) or isinstance(b, SBool):
        return tobool(a) == tobool(b)
    try:
        return z3.BoolVal(bool(a == b) or a is b)
    except Exception:
        return z3.BoolVal(a is b)


_MODEL_NAMES = ("SymList", "SymDiGraph", "LazyIdMap", "SArr", "SInt", "SReal", "SBool", "SStr", "SymDict", "_NodeView",
                "_EdgeView")


def reraise_model_gap(exc):
    """A TypeError / AttributeError / NotImplementedError that comes from a MODEL object lacking an operation (its message
    names a model class, or it is raised inside sx/) is a gap of the modelled API, not behaviour of funtracks: the path is
    unsupported (=> the run is inconclusive and the concrete fall-back may still decide it), never a 'refused edit'."""
    if not isinstance(exc, (TypeError, AttributeError, NotImplementedError)):
        return
    msg = str(exc)
    hit = any(("'" + n + "'") in msg or (n + " object") in msg for n in _MODEL_NAMES)
    tb = exc.__traceback__
    last = None
    while tb is not None:
        last = tb
        tb = tb.tb_next
    if last is not None and "/sx/" in last.tb_frame.f_code.co_filename.replace("\\", "/"):
        hit = True
    if hit:
        raise Unsupported(f"operation outside the modelled API: {type(exc).__name__}: {msg}") from exc
