"""Symbolic model of networkx.DiGraph over a bounded universe of node slots.

Slots carry concrete node ids; `alive[s]` and `adj[s][t]` are z3 Bools (python
bools once decided).  Node / edge attribute dicts are ordinary python dicts with
concrete keys and proxy values.  Only the API subset funtracks uses is
implemented; everything else raises Unsupported (=> inconclusive run).
"""
from __future__ import annotations

import networkx as nx
import numpy as np
import z3

from .rt import SBool, SInt, Unsupported, cur, toint, zb, And, Or, Not, count, is_lit_true, is_lit_false


class SymDiGraph:
    is_sym = True

    def __init__(self, ids, tag="g", sym_order=True, fresh=True):
        self.ids = list(ids)
        self.N = len(self.ids)
        self.slot = {i: s for s, i in enumerate(self.ids)}
        if fresh:
            self.alive = [z3.Bool(f"{tag}_alive_{i}") for i in self.ids]
            self.E = [[z3.Bool(f"{tag}_adj_{i}_{j}") for j in self.ids] for i in self.ids]
        else:
            self.alive = [False] * self.N
            self.E = [[False] * self.N for _ in self.ids]
        self.nattr = [dict() for _ in self.ids]
        self.eattr = {}
        self.sym_order = sym_order
        self.graph = {}
        # iteration order of successors (networkx: insertion order of the edges, i.e. history dependent):
        # decided once per node (a symbolic permutation for two pre-state children), then maintained
        self.sorder = {}  # slot -> [successor slots] once materialised
        self.added = {}  # slot -> successors added before materialisation, in order
        self.order_log = {}  # node id -> initial successor order that was chosen (for replay)

    # ------------------------------------------------------------ helpers
    def _id(self, n):
        """node argument -> python int id (concretising a symbolic id) or None if not int-like"""
        if isinstance(n, SInt):
            return cur().concretize(n.e)
        if isinstance(n, (bool, np.bool_)):
            return int(n)
        if isinstance(n, (int, np.integer)):
            return int(n)
        return None

    def _slot(self, n):
        """slot index of a node id that may or may not be alive; None if outside the universe"""
        v = self._id(n)
        if v is None:
            return None
        return self.slot.get(v)

    def _live_slot(self, n, exc=KeyError):
        s = self._slot(n)
        if s is None or not cur().decide(zb(self.alive[s])):
            if exc is nx.NetworkXError:
                raise nx.NetworkXError(f"The node {n} is not in the digraph.")
            raise exc(n)
        self.alive[s] = True
        return s

    def _edge_bit(self, s, t):
        b = cur().decide(zb(self.E[s][t]))
        self.E[s][t] = b
        return b

    def _alive_slots(self):
        out = []
        for s in range(self.N):
            b = cur().decide(zb(self.alive[s]))
            self.alive[s] = b
            if b:
                out.append(s)
        return out

    def _succ_slots(self, s):
        if s not in self.sorder:
            late = [t for t in self.added.get(s, []) if self._edge_bit(s, t)]
            base = [j for j in range(self.N) if j not in late and self._edge_bit(s, j)]
            if self.sym_order and len(base) == 2 and cur().choose(2, "succ_order") == 1:
                base = [base[1], base[0]]
            if len(base) > 1:
                self.order_log[self.ids[s]] = [self.ids[j] for j in base]
            self.sorder[s] = base + late
        return [t for t in self.sorder[s] if self._edge_bit(s, t)]

    # ------------------------------------------------------------ queries
    def has_node(self, n):
        e = toint(n)
        if e is None:
            return False
        if z3.is_int_value(e):
            s = self.slot.get(e.as_long())
            if s is None:
                return False
            a = self.alive[s]
            return a if isinstance(a, bool) else SBool(a)
        return SBool(Or([And(e == i, zb(a)) for i, a in zip(self.ids, self.alive)]))

    def __contains__(self, n):
        try:
            return bool(self.has_node(n))
        except TypeError:
            return False

    def has_edge(self, u, v):
        ue, ve = toint(u), toint(v)
        if ue is None or ve is None:
            return False
        if z3.is_int_value(ue) and z3.is_int_value(ve):
            su, sv = self.slot.get(ue.as_long()), self.slot.get(ve.as_long())
            if su is None or sv is None:
                return False
            a = self.E[su][sv]
            return a if isinstance(a, bool) else SBool(a)
        return SBool(Or([And(ue == self.ids[i], ve == self.ids[j], zb(self.E[i][j]))
                         for i in range(self.N) for j in range(self.N)]))

    def number_of_nodes(self):
        return _maybe_int(count(zb(a) for a in self.alive))

    def __len__(self):
        return int(SInt(count(zb(a) for a in self.alive)))

    def number_of_edges(self):
        return _maybe_int(count(zb(self.E[i][j]) for i in range(self.N) for j in range(self.N)))

    def __iter__(self):
        return iter([self.ids[s] for s in self._alive_slots()])

    def is_directed(self):
        return True

    def is_multigraph(self):
        return False

    def outdeg_term(self, s):
        return count(zb(self.E[s][j]) for j in range(self.N))

    def indeg_term(self, s):
        return count(zb(self.E[i][s]) for i in range(self.N))

    def out_degree(self, n=None):
        if n is None:
            return [(self.ids[s], _maybe_int(self.outdeg_term(s))) for s in self._alive_slots()]
        s = self._live_slot(n, nx.NetworkXError)
        return _maybe_int(self.outdeg_term(s))

    def in_degree(self, n=None):
        if n is None:
            return [(self.ids[s], _maybe_int(self.indeg_term(s))) for s in self._alive_slots()]
        s = self._live_slot(n, nx.NetworkXError)
        return _maybe_int(self.indeg_term(s))

    def successors(self, n):
        s = self._live_slot(n, nx.NetworkXError)
        return iter([self.ids[j] for j in self._succ_slots(s)])

    neighbors = successors

    def predecessors(self, n):
        s = self._live_slot(n, nx.NetworkXError)
        return iter([self.ids[i] for i in range(self.N) if self._edge_bit(i, s)])

    def in_edges(self, n=None, data=False):
        if data:
            raise Unsupported("in_edges(data=True)")
        if n is None:
            return [(u, v) for (u, v) in self.edges()]
        if isinstance(n, (list, tuple, np.ndarray)):
            out = []
            seen = set()
            for m in n:
                sm = self._slot(m)
                if sm is None or sm in seen or not cur().decide(zb(self.alive[sm])):
                    continue
                seen.add(sm)
                out.extend(self.in_edges(self.ids[sm]))
            return out
        s = self._live_slot(n, nx.NetworkXError)
        return [(p, self.ids[s]) for p in self.predecessors(self.ids[s])]

    def out_edges(self, n=None, data=False):
        if data:
            raise Unsupported("out_edges(data=True)")
        if n is None:
            return self.edges()
        if isinstance(n, (list, tuple, np.ndarray)):
            out = []
            seen = set()
            for m in n:
                # networkx silently skips nbunch members that are not nodes, and visits each node once
                sm = self._slot(m)
                if sm is None or sm in seen or not cur().decide(zb(self.alive[sm])):
                    continue
                seen.add(sm)
                out.extend(self.out_edges(self.ids[sm]))
            return out
        s = self._live_slot(n, nx.NetworkXError)
        return [(self.ids[s], c) for c in self.successors(self.ids[s])]

    # ------------------------------------------------------------ views
    @property
    def nodes(self):
        return _NodeView(self)

    @property
    def edges(self):
        return _EdgeView(self)

    # ------------------------------------------------------------ mutation
    def add_node(self, n, **attrs):
        s = self._slot(n)
        if s is None:
            raise Unsupported(f"add_node: id {n} outside the modelled universe")
        if not cur().decide(zb(self.alive[s])):
            self.nattr[s] = {}
        self.alive[s] = True
        self.nattr[s].update(attrs)

    def add_edge(self, u, v, **attrs):
        su, sv = self._slot(u), self._slot(v)
        if su is None or sv is None:
            raise Unsupported(f"add_edge: endpoint of {(u, v)} outside the modelled universe")
        for s in (su, sv):
            if not cur().decide(zb(self.alive[s])):
                self.nattr[s] = {}
            self.alive[s] = True
        if not self._edge_bit(su, sv):
            self.eattr[(su, sv)] = {}
            if su in self.sorder:
                self.sorder[su] = [t for t in self.sorder[su] if t != sv] + [sv]
            else:
                self.added[su] = [t for t in self.added.get(su, []) if t != sv] + [sv]
        self.E[su][sv] = True
        self.eattr.setdefault((su, sv), {}).update(attrs)

    def remove_node(self, n):
        s = self._live_slot(n, nx.NetworkXError)
        self.alive[s] = False
        self.nattr[s] = {}
        self.sorder.pop(s, None)
        self.added.pop(s, None)
        for j in range(self.N):
            if j in self.sorder:
                self.sorder[j] = [t for t in self.sorder[j] if t != s]
            if j in self.added:
                self.added[j] = [t for t in self.added[j] if t != s]
            self.E[s][j] = False
            self.E[j][s] = False
            self.eattr.pop((s, j), None)
            self.eattr.pop((j, s), None)

    # bulk forms (networkx semantics: remove_*_from silently skip what is not there; add_*_from accept plain items
    # or (item, attr dict) pairs)
    def remove_nodes_from(self, nodes):
        for n in list(nodes):
            s = self._slot(n)
            if s is not None and cur().decide(zb(self.alive[s])):
                self.remove_node(n)

    def remove_edges_from(self, ebunch):
        for e in list(ebunch):
            u, v = e[0], e[1]
            su, sv = self._slot(u), self._slot(v)
            if su is not None and sv is not None and self._edge_bit(su, sv):
                self.remove_edge(u, v)

    def add_nodes_from(self, nodes, **attr):
        for item in list(nodes):
            if isinstance(item, tuple) and len(item) == 2 and isinstance(item[1], dict):
                d = dict(attr)
                d.update(item[1])
                self.add_node(item[0], **d)
            else:
                self.add_node(item, **attr)

    def add_edges_from(self, ebunch, **attr):
        for e in list(ebunch):
            d = dict(attr)
            if len(e) == 3:
                d.update(e[2])
            self.add_edge(e[0], e[1], **d)

    def remove_edge(self, u, v):
        su, sv = self._slot(u), self._slot(v)
        if su is None or sv is None or not self._edge_bit(su, sv):
            raise nx.NetworkXError(f"The edge {u}-{v} not in graph.")
        self.E[su][sv] = False
        if su in self.sorder:
            self.sorder[su] = [t for t in self.sorder[su] if t != sv]
        if su in self.added:
            self.added[su] = [t for t in self.added[su] if t != sv]
        self.eattr.pop((su, sv), None)

    # ------------------------------------------------------------ realisation
    def realise(self, nodes=None, share_attrs=False):
        """Concretise the shape (forks) and return a real nx.DiGraph whose attribute
        values are the proxies.  Library algorithms then run on the real library."""
        g = nx.DiGraph()
        g.graph.update(self.graph)
        keep = None
        if nodes is not None:
            keep = set()
            for m in nodes:
                sm = self._slot(m)
                if sm is not None:
                    keep.add(sm)
        slots = [s for s in self._alive_slots() if keep is None or s in keep]
        for s in slots:
            g.add_node(self.ids[s])
            if share_attrs:
                g._node[self.ids[s]] = self.nattr[s]
            else:
                g._node[self.ids[s]].update(self.nattr[s])
        for s in slots:
            for t in self._succ_slots(s):
                if t in slots:
                    d = self.eattr.setdefault((s, t), {})
                    g.add_edge(self.ids[s], self.ids[t])
                    if share_attrs:
                        g._succ[self.ids[s]][self.ids[t]] = d
                        g._pred[self.ids[t]][self.ids[s]] = d
                    else:
                        g[self.ids[s]][self.ids[t]].update(d)
        return g

    def copy(self, as_view=False):
        return self.realise()

    def subgraph(self, nodes):
        return self.realise(nodes=list(nodes), share_attrs=True)

    @property
    def _succ(self):
        return self.realise(share_attrs=True)._succ

    @property
    def _pred(self):
        return self.realise(share_attrs=True)._pred

    _adj = _succ
    succ = _succ
    pred = _pred
    adj = _succ

    @property
    def _node(self):
        return {self.ids[s]: self.nattr[s] for s in self._alive_slots()}

    def __getitem__(self, n):
        s = self._live_slot(n)
        return {self.ids[t]: self.eattr.setdefault((s, t), {}) for t in self._succ_slots(s)}

    def __getattr__(self, name):
        if name.startswith("__"):
            raise AttributeError(name)
        raise Unsupported(f"SymDiGraph.{name} is not modelled")

    # ------------------------------------------------------------ formulas (for Inv / obligations)
    def A(self, i, j):
        return zb(self.E[i][j])

    def AL(self, i):
        return zb(self.alive[i])


def _maybe_int(term):
    if z3.is_int_value(term):
        return term.as_long()
    return SInt(term)


class _NodeView:
    def __init__(self, g):
        self.g = g

    def __call__(self, data=False, default=None):
        g = self.g
        if data is True:
            return [(g.ids[s], g.nattr[s]) for s in g._alive_slots()]
        if data is False:
            return [g.ids[s] for s in g._alive_slots()]
        return [(g.ids[s], g.nattr[s].get(data, default)) for s in g._alive_slots()]

    data = __call__

    def __iter__(self):
        return iter(self())

    def __getitem__(self, n):
        return self.g.nattr[self.g._live_slot(n)]

    def __contains__(self, n):
        return n in self.g

    def __len__(self):
        return len(self.g)

    def items(self):
        return self(data=True)

    def keys(self):
        return self()


class _EdgeView:
    def __init__(self, g):
        self.g = g

    def __call__(self, nbunch=None, data=False, default=None):
        g = self.g
        if nbunch is not None:
            if data:
                raise Unsupported("edges(nbunch, data)")
            return g.out_edges(nbunch)
        out = []
        for s in g._alive_slots():
            for j in g._succ_slots(s):
                if True:
                    e = (g.ids[s], g.ids[j])
                    if data is True:
                        out.append(e + (g.eattr.setdefault((s, j), {}),))
                    elif data is False:
                        out.append(e)
                    else:
                        out.append(e + (g.eattr.setdefault((s, j), {}).get(data, default),))
        return out

    data = __call__

    def __iter__(self):
        return iter(self())

    def __len__(self):
        return int(SInt(count(zb(self.g.E[i][j]) for i in range(self.g.N) for j in range(self.g.N))))

    def __getitem__(self, e):
        if len(e) != 2:
            raise Unsupported("edge key of length != 2")
        su, sv = self.g._slot(e[0]), self.g._slot(e[1])
        if su is None or sv is None or not self.g._edge_bit(su, sv):
            raise KeyError(e)
        return self.g.eattr.setdefault((su, sv), {})

    def __contains__(self, e):
        try:
            u, v = e
        except (TypeError, ValueError):
            return False
        return bool(self.g.has_edge(u, v))
