"""Symbolic model of numpy label arrays: concrete shape, one z3 term per cell.

Cells live in a numpy *object* array, so basic indexing gives write-through views
exactly as in numpy.  numpy's own protocols (__array_function__/__array_ufunc__)
dispatch funtracks' `np.xxx(seg, ...)` calls to the handlers below; anything
not handled raises Unsupported (=> inconclusive run, never a pass).

Arithmetic is over mathematical integers: uint64 wrap-around is outside every claim.
"""
from __future__ import annotations

import numpy as np
import z3

from .rt import SBool, SInt, SReal, Unsupported, cur, toint, tonum, And, Or, Not, If, count


def lift(v):
    if isinstance(v, (SInt, SBool, SReal)):
        return v.e
    if isinstance(v, (bool, np.bool_)):
        return z3.BoolVal(bool(v))
    if isinstance(v, (int, np.integer)):
        return z3.IntVal(int(v))
    if z3.is_expr(v):
        return v
    if isinstance(v, (float, np.floating)) and float(v).is_integer():
        return z3.IntVal(int(v))
    raise Unsupported(f"cannot lift {type(v)} into a symbolic array")


def wrap(e):
    if z3.is_bool(e):
        return SBool(e)
    if z3.is_int(e):
        return SInt(e)
    return SReal(e)


def narrow(dt):
    dt = np.dtype(dt)
    return dt.kind in "iu" and dt.itemsize < 8


def wrap_to(e, dt):
    """two's-complement wrap-around of a mathematical integer stored in an 8/16/32-bit integer dtype (numpy's
    silent behaviour for array arithmetic and array-to-array assignment); 64-bit dtypes stay mathematical"""
    dt = np.dtype(dt)
    if not narrow(dt) or not z3.is_expr(e) or not z3.is_int(e):
        return e
    info = np.iinfo(dt)
    lo, hi = int(info.min), int(info.max)
    m = hi - lo + 1
    if z3.is_int_value(e):
        return z3.IntVal((e.as_long() - lo) % m + lo)
    return _simp(z3.If(z3.And(e >= lo, e <= hi), e, (e - lo) % m + lo))


def nz(x):
    return x if z3.is_bool(x) else x != 0


def _simp(e):
    return z3.simplify(e)


HANDLED = {}


def implements(*fs):
    def deco(g):
        for f in fs:
            HANDLED[f] = g
        return g

    return deco


class SArr:
    is_sym = True
    __array_priority__ = 1000

    def __init__(self, cells, dtype=np.int64):
        self.c = cells
        self.dtype = np.dtype(dtype)

    @classmethod
    def fresh(cls, name, shape, dtype=np.int64):
        c = np.empty(shape, dtype=object)
        for idx in np.ndindex(*shape):
            c[idx] = z3.Int(f"{name}_{'_'.join(map(str, idx))}")
        return cls(c, dtype)

    @classmethod
    def const(cls, shape, value=0, dtype=np.int64):
        c = np.empty(shape, dtype=object)
        v = lift(value)
        for idx in np.ndindex(*shape):
            c[idx] = v
        return cls(c, dtype)

    shape = property(lambda s: s.c.shape)
    ndim = property(lambda s: s.c.ndim)
    size = property(lambda s: s.c.size)

    def __len__(self):
        return self.c.shape[0]

    def copy(self, order="C"):
        return SArr(self.c.copy(order=order), self.dtype)

    def astype(self, dt, copy=True, order="K"):
        c = self.c.copy(order=order)  # (numpy: astype keeps the memory layout of its input, ndarray.copy() does not)
        if narrow(dt):
            for idx in np.ndindex(*c.shape):
                c[idx] = wrap_to(c[idx], dt)
        return SArr(c, dt)

    def flatten(self):
        return SArr(self.c.flatten(), self.dtype)

    def ravel(self):
        return SArr(self.c.reshape(-1), self.dtype)

    def reshape(self, *shape):
        if len(shape) == 1 and isinstance(shape[0], (tuple, list)):
            shape = tuple(shape[0])
        # numpy semantics carried by the object array itself: a view where the memory layout allows one, else a COPY
        # (stores into the result then do not reach this array)
        return SArr(self.c.reshape(shape), self.dtype)

    def compute(self):
        return self

    def is_bool(self):
        return self.c.size > 0 and z3.is_bool(self.c.flat[0])

    def cells(self):
        return list(self.c.flat)

    # ---- elementwise
    def _ew(self, o, f, dtype=None):
        out = np.empty(self.c.shape, dtype=object)
        if isinstance(o, SArr):
            oc = np.broadcast_to(o.c, self.c.shape)
            for idx in np.ndindex(*self.c.shape):
                out[idx] = f(self.c[idx], oc[idx])
        elif isinstance(o, np.ndarray):
            oc = np.broadcast_to(o, self.c.shape)
            for idx in np.ndindex(*self.c.shape):
                out[idx] = f(self.c[idx], lift(oc[idx]))
        else:
            oe = lift(o)
            for idx in np.ndindex(*self.c.shape):
                out[idx] = f(self.c[idx], oe)
        return SArr(out, dtype or self.dtype)

    def __eq__(self, o):
        return self._ew(o, lambda a, b: a == b, np.bool_)

    def __ne__(self, o):
        return self._ew(o, lambda a, b: a != b, np.bool_)

    def __lt__(self, o):
        return self._ew(o, lambda a, b: a < b, np.bool_)

    def __le__(self, o):
        return self._ew(o, lambda a, b: a <= b, np.bool_)

    def __gt__(self, o):
        return self._ew(o, lambda a, b: a > b, np.bool_)

    def __ge__(self, o):
        return self._ew(o, lambda a, b: a >= b, np.bool_)

    def _arith(self, o, f):
        """arithmetic in the array's own dtype (a Python int operand is 'weak' under NEP 50; a wider array operand
        widens the result)"""
        dt = self.dtype
        if isinstance(o, (SArr, np.ndarray)) and np.dtype(o.dtype).kind in "iuf":
            dt = np.result_type(dt, o.dtype)
        r = self._ew(o, f, dt)
        if narrow(dt):
            for idx in np.ndindex(*r.c.shape):
                r.c[idx] = wrap_to(r.c[idx], dt)
        return r

    def __add__(self, o):
        return self._arith(o, lambda a, b: a + b)

    __radd__ = __add__

    def __sub__(self, o):
        return self._arith(o, lambda a, b: a - b)

    def __mul__(self, o):
        return self._arith(o, lambda a, b: a * b)

    __rmul__ = __mul__

    def __and__(self, o):
        return self._ew(o, lambda a, b: And(nz(a), nz(b)), np.bool_)

    def __or__(self, o):
        return self._ew(o, lambda a, b: Or(nz(a), nz(b)), np.bool_)

    def __invert__(self):
        out = np.empty(self.c.shape, dtype=object)
        for idx in np.ndindex(*self.c.shape):
            out[idx] = Not(nz(self.c[idx]))
        return SArr(out, np.bool_)

    def __iadd__(self, o):
        r = self._ew(o, lambda a, b: a + b)
        if narrow(self.dtype):
            for idx in np.ndindex(*r.c.shape):
                r.c[idx] = wrap_to(r.c[idx], self.dtype)
        self.c[...] = r.c
        return self

    __hash__ = None

    def __bool__(self):
        if self.c.size != 1:
            raise ValueError("The truth value of an array with more than one element is ambiguous.")
        return bool(wrap(self.c.flat[0]))

    # ---- indexing
    def _cidx(self, i):
        if isinstance(i, SInt):
            return cur().concretize(i.e)
        if isinstance(i, tuple):
            return tuple(self._cidx(j) for j in i)
        if isinstance(i, list):
            return [self._cidx(j) for j in i]
        if isinstance(i, np.ndarray) and i.dtype == object:
            return np.array([self._cidx(j) for j in i.flat], dtype=np.intp).reshape(i.shape)
        return i

    def __getitem__(self, i):
        if isinstance(i, SArr):
            if not i.is_bool():
                raise Unsupported("integer SArr index")
            return _Masked(self, i)
        if isinstance(i, tuple) and any(isinstance(j, SArr) for j in i):
            raise Unsupported("SArr inside an index tuple")
        i = self._cidx(i)
        r = self.c[i]
        if isinstance(r, np.ndarray):
            return SArr(r, self.dtype)
        return wrap(r)

    def __setitem__(self, i, v):
        if isinstance(i, SArr):
            if not i.is_bool():
                raise Unsupported("integer SArr index")
            if isinstance(v, _Masked):
                if v.mask is not i and not (v.mask.c.shape == i.c.shape
                                            and all(z3.eq(a, b) for a, b in zip(v.mask.c.flat, i.c.flat))):
                    raise Unsupported("masked assignment with a different mask")
                src = v.vals
            elif isinstance(v, (SArr, np.ndarray)):
                raise Unsupported("array value under a symbolic mask")
            else:
                src = None
            mc = np.broadcast_to(i.c, self.c.shape)
            for idx in np.ndindex(*self.c.shape):
                new = src[idx] if src is not None else lift(v)
                self.c[idx] = _simp(If(mc[idx], wrap_to(new, self.dtype), self.c[idx]))
            return
        i = self._cidx(i)
        if narrow(self.dtype):
            self._store_narrow(i, v)
            return
        if isinstance(v, SArr):
            self.c[i] = v.c
        elif isinstance(v, np.ndarray):
            tmp = np.empty(v.shape, dtype=object)
            for idx in np.ndindex(*v.shape):
                tmp[idx] = lift(v[idx])
            self.c[i] = tmp
        else:
            lv = lift(v)
            tgt = self.c[i]
            if isinstance(tgt, np.ndarray):
                # fill without letting numpy iterate over the z3 expression
                fill = np.empty(tgt.shape, dtype=object)
                for idx in np.ndindex(*tgt.shape):
                    fill[idx] = lv
                self.c[i] = fill
            else:
                self.c[i] = lv

    def _store_narrow(self, i, v):
        """assignment into an 8/16/32-bit integer array: array values wrap (numpy casts them 'unsafe')"""
        tgt = self.c[i]
        if isinstance(v, SArr):
            src = v.c
        elif isinstance(v, np.ndarray):
            src = np.empty(v.shape, dtype=object)
            for idx in np.ndindex(*v.shape):
                src[idx] = lift(v[idx])
        else:
            src = lift(v)
        if isinstance(tgt, np.ndarray):
            out = np.empty(tgt.shape, dtype=object)
            bs = np.broadcast_to(src, tgt.shape) if isinstance(src, np.ndarray) else None
            for idx in np.ndindex(*tgt.shape):
                out[idx] = wrap_to(bs[idx] if bs is not None else src, self.dtype)
            self.c[i] = out
        else:
            self.c[i] = wrap_to(src if not isinstance(src, np.ndarray) else src.item(), self.dtype)

    def __iter__(self):
        for k in range(self.c.shape[0]):
            yield self[k]

    def tolist(self):
        """nested lists of symbolic scalars (the analog of numpy's nested lists of Python scalars)"""
        def rec(a):
            if not isinstance(a, np.ndarray):
                return wrap(a)
            if a.ndim == 0:
                return wrap(a.item())
            return [rec(a[k]) for k in range(a.shape[0])]

        return rec(self.c)

    def __array__(self, dtype=None, copy=None):
        """The array reaches compiled numpy code that the model does not cover: REALISE it, i.e.
        concretise every cell by solver-guided forks (finite domains only - an unbounded cell raises
        Unsupported).  Recorded as a tag so that the evidence shows where the claim was decided by
        case split over cell values instead of symbolically."""
        c = cur()
        if not c.allow_realise:
            raise Unsupported("a symbolic array reached compiled numpy code (realisation is only enabled in runs "
                              "with small finite cell domains)")
        c.tag("realised_array_at_C_boundary")
        out = np.empty(self.c.shape, dtype=object)
        for idx in np.ndindex(*self.c.shape):
            e = self.c[idx]
            if z3.is_bool(e):
                out[idx] = c.decide(e)
            else:
                out[idx] = c.concretize(e)
        dt = dtype or (np.bool_ if self.is_bool() else self.dtype)
        return out.astype(dt)

    # ---- numpy protocols
    def __array_function__(self, func, types, args, kwargs):
        if func not in HANDLED:
            raise Unsupported(f"np.{func.__name__} on a symbolic array")
        return HANDLED[func](*args, **kwargs)

    def __array_ufunc__(self, ufunc, method, *inputs, **kw):
        if method != "__call__" or kw.get("out") is not None:
            raise Unsupported(f"ufunc {ufunc.__name__}.{method}")
        fs = {
            np.logical_and: (lambda x, y: And(nz(x), nz(y)), np.bool_),
            np.logical_or: (lambda x, y: Or(nz(x), nz(y)), np.bool_),
            np.multiply: (lambda x, y: x * y, None),
            np.add: (lambda x, y: x + y, None),
            np.subtract: (lambda x, y: x - y, None),
            np.equal: (lambda x, y: x == y, np.bool_),
            np.not_equal: (lambda x, y: x != y, np.bool_),
            np.greater: (lambda x, y: x > y, np.bool_),
            np.less: (lambda x, y: x < y, np.bool_),
        }
        if ufunc is np.logical_not and len(inputs) == 1:
            return ~inputs[0]
        if ufunc not in fs or len(inputs) != 2:
            raise Unsupported(f"ufunc {ufunc.__name__}")
        f, dt = fs[ufunc]
        a, b = inputs
        if isinstance(a, SArr):
            return a._ew(b, f, dt)
        # a is a real scalar/array, b the SArr: flip (all handled ops are commutative or flipped here)
        if ufunc in (np.subtract,):
            return b._ew(a, lambda x, y: y - x, dt)
        if ufunc is np.greater:
            return b._ew(a, lambda x, y: y > x, dt)
        if ufunc is np.less:
            return b._ew(a, lambda x, y: y < x, dt)
        return b._ew(a, f, dt)

    def __repr__(self):
        return f"SArr{self.c.shape}"

    # ---- reductions as methods
    def clip(self, a_min=None, a_max=None, **kw):
        return _clip(self, a_min, a_max)

    def min(self, axis=None):
        return _min(self, axis)

    def max(self, axis=None):
        return _max(self, axis)

    def sum(self, axis=None):
        return _sum(self, axis)

    def any(self):
        return _any(self)

    def all(self):
        return _all(self)


class _Masked:
    """result of a[mask] with a symbolic mask; usable for `a[mask] op= v` and reductions"""

    def __init__(self, arr, mask):
        self.vals = arr.c.copy()
        self.mask = mask
        self.arr = arr

    def __iadd__(self, o):
        oe = lift(o)
        for idx in np.ndindex(*self.vals.shape):
            self.vals[idx] = wrap_to(self.vals[idx] + oe, self.arr.dtype)
        return self

    def concretize(self):
        """decide the mask (forks) and return the selected cells as an SArr (numpy semantics: 1-d copy)"""
        mc = np.broadcast_to(self.mask.c, self.vals.shape)
        sel = [self.vals[idx] for idx in np.ndindex(*self.vals.shape) if cur().decide(mc[idx])]
        c = np.empty((len(sel),), dtype=object)
        for k, x in enumerate(sel):
            c[k] = x
        return SArr(c, self.arr.dtype)

    def __len__(self):
        return len(self.concretize())

    def __iter__(self):
        return iter(self.concretize())

    def __array_function__(self, func, types, args, kwargs):
        args = tuple(a.concretize() if isinstance(a, _Masked) else a for a in args)
        if func not in HANDLED:
            raise Unsupported(f"np.{func.__name__} on a masked symbolic selection")
        return HANDLED[func](*args, **kwargs)


def _as_sarr(a):
    if isinstance(a, SArr):
        return a
    if isinstance(a, _Masked):
        return a.concretize()
    if isinstance(a, np.ndarray):
        c = np.empty(a.shape, dtype=object)
        for idx in np.ndindex(*a.shape):
            c[idx] = lift(a[idx])
        return SArr(c, a.dtype)
    raise Unsupported(f"expected array, got {type(a)}")


@implements(np.max, np.amax)
def _max(a, axis=None, **kw):
    a = _as_sarr(a)
    if axis is not None:
        raise Unsupported("max with axis")
    cells = a.cells()
    if not cells:
        raise ValueError("zero-size array to reduction operation maximum which has no identity")
    m = cells[0]
    for x in cells[1:]:
        m = If(x > m, x, m)
    return wrap(_simp(m))


@implements(np.min, np.amin)
def _min(a, axis=None, **kw):
    a = _as_sarr(a)
    if axis is not None:
        raise Unsupported("min with axis")
    cells = a.cells()
    if not cells:
        raise ValueError("zero-size array to reduction operation minimum which has no identity")
    m = cells[0]
    for x in cells[1:]:
        m = If(x < m, x, m)
    return wrap(_simp(m))


@implements(np.sum)
def _sum(a, axis=None, **kw):
    a = _as_sarr(a)
    if axis is not None:
        raise Unsupported("sum with axis")
    cells = a.cells()
    if not cells:
        return 0
    if z3.is_bool(cells[0]):
        t = count(cells)
    else:
        t = z3.Sum(cells) if len(cells) > 1 else cells[0]
    t = _simp(t)
    return t.as_long() if z3.is_int_value(t) else wrap(t)


@implements(np.count_nonzero)
def _count_nonzero(a, axis=None, **kw):
    a = _as_sarr(a)
    t = _simp(count(nz(x) for x in a.cells()))
    return t.as_long() if z3.is_int_value(t) else SInt(t)


@implements(np.any)
def _any(a, axis=None, **kw):
    a = _as_sarr(a)
    return SBool(Or([nz(x) for x in a.cells()]))


@implements(np.all)
def _all(a, axis=None, **kw):
    a = _as_sarr(a)
    return SBool(And([nz(x) for x in a.cells()]))


@implements(np.zeros_like)
def _zeros_like(a, dtype=None, **kw):
    return SArr.const(a.c.shape, 0, dtype or a.dtype)


@implements(np.ones_like)
def _ones_like(a, dtype=None, **kw):
    return SArr.const(a.c.shape, 1, dtype or a.dtype)


@implements(np.copy)
def _copy(a, order="K", **kw):
    return a.copy(order=order)


@implements(np.shape)
def _shape(a):
    return a.c.shape


@implements(np.ndim)
def _ndim(a):
    return a.c.ndim


@implements(np.where)
def _where(cond, x=None, y=None):
    if x is None:
        return _nonzero(cond)
    cond = _as_sarr(cond)
    out = np.empty(cond.c.shape, dtype=object)
    xs = np.broadcast_to(x.c, cond.c.shape) if isinstance(x, SArr) else None
    ys = np.broadcast_to(y.c, cond.c.shape) if isinstance(y, SArr) else None
    xe = None if xs is not None else lift(x)
    ye = None if ys is not None else lift(y)
    for idx in np.ndindex(*out.shape):
        out[idx] = _simp(If(nz(cond.c[idx]), xs[idx] if xs is not None else xe, ys[idx] if ys is not None else ye))
    dt = x.dtype if isinstance(x, SArr) else (y.dtype if isinstance(y, SArr) else np.int64)
    return SArr(out, dt)


@implements(np.nonzero)
def _nonzero(a):
    a = _as_sarr(a)
    hits = [idx for idx in np.ndindex(*a.c.shape) if cur().decide(nz(a.c[idx]))]
    return tuple(np.array([h[d] for h in hits], dtype=np.intp) for d in range(a.c.ndim))


@implements(np.flatnonzero)
def _flatnonzero(a):
    return _nonzero(_as_sarr(a).ravel())[0]


@implements(np.isin)
def _isin(element, test_elements, **kw):
    element = _as_sarr(element)
    if isinstance(test_elements, (SArr, _Masked)):
        tests = _as_sarr(test_elements).cells()
    else:
        tests = [lift(t) for t in np.asarray(list(test_elements)).flat] if not isinstance(
            test_elements, np.ndarray) else [lift(t) for t in test_elements.flat]
    out = np.empty(element.c.shape, dtype=object)
    for idx in np.ndindex(*out.shape):
        out[idx] = Or([element.c[idx] == t for t in tests])
    return SArr(out, np.bool_)


@implements(np.array_equal)
def _array_equal(a, b, **kw):
    a, b = _as_sarr(a), _as_sarr(b)
    if a.c.shape != b.c.shape:
        return False
    return SBool(And([x == y for x, y in zip(a.cells(), b.cells())]))


@implements(np.unique)
def _unique(a, return_counts=False, axis=None, **kw):
    """distinct values of a symbolic array: concretised structurally (forks on equalities between
    cells); values stay symbolic.  Sorted order is decided by forks on `<`."""
    if axis is not None or kw:
        raise Unsupported("np.unique with axis / extra options on a symbolic array")
    a = _as_sarr(a)
    reps = []  # [(term, count)]
    for x in a.cells():
        for r in reps:
            if cur().decide(r[0] == x):
                r[1] += 1
                break
        else:
            reps.append([x, 1])
    # insertion sort with symbolic comparisons
    srt = []
    for r in reps:
        k = 0
        while k < len(srt) and cur().decide(srt[k][0] < r[0]):
            k += 1
        srt.insert(k, r)
    vals = np.empty((len(srt),), dtype=object)
    for k, r in enumerate(srt):
        vals[k] = r[0]
    va = SArr(vals, a.dtype)
    if return_counts:
        return va, np.array([r[1] for r in srt], dtype=np.intp)
    return va


@implements(np.concatenate)
def _concatenate(arrs, axis=0, **kw):
    arrs = [_as_sarr(x) for x in arrs]
    return SArr(np.concatenate([x.c for x in arrs], axis=axis), arrs[0].dtype)


@implements(np.stack)
def _stack(arrs, axis=0, **kw):
    arrs = [_as_sarr(x) for x in arrs]
    return SArr(np.stack([x.c for x in arrs], axis=axis), arrs[0].dtype)


@implements(np.column_stack)
def _column_stack(arrs, **kw):
    arrs = [_as_sarr(x) for x in arrs]
    dt = np.result_type(*[x.dtype for x in arrs])
    return SArr(np.column_stack([x.c for x in arrs]), dt)


@implements(np.expand_dims)
def _expand_dims(a, axis):
    return SArr(np.expand_dims(a.c, axis), a.dtype)


@implements(np.squeeze)
def _squeeze(a, axis=None):
    return SArr(np.squeeze(a.c, axis), a.dtype)


@implements(np.clip)
def _clip(a, a_min=None, a_max=None, **kw):
    a = _as_sarr(a)
    out = np.empty(a.c.shape, dtype=object)
    for idx in np.ndindex(*out.shape):
        e = a.c[idx]
        if a_min is not None:
            lo = lift(a_min)
            e = If(e < lo, lo, e)
        if a_max is not None:
            hi = lift(a_max)
            e = If(e > hi, hi, e)
        out[idx] = _simp(e)
    return SArr(out, a.dtype)


@implements(np.minimum)
def _minimum(a, b, **kw):
    a = _as_sarr(a)
    return a._ew(b, lambda x, y: If(x < y, x, y))


@implements(np.maximum)
def _maximum(a, b, **kw):
    a = _as_sarr(a)
    return a._ew(b, lambda x, y: If(x > y, x, y))


@implements(np.prod)
def _prod(a, **kw):
    raise Unsupported("np.prod of a symbolic array")


@implements(np.asarray, np.array, np.asanyarray)
def _asarray(a, *args, **kw):
    if isinstance(a, SArr):
        return a
    raise Unsupported("np.asarray of a container holding symbolic arrays")


def eq_arrays(a: SArr, b: SArr):
    return And([x == y for x, y in zip(a.cells(), b.cells())])
