#!/bin/sh
# Idempotent, offline: overlay venv on top of /venv (which holds funtracks' own
# dependencies) with z3-solver + crosshair-tool from the local wheelhouse.
# The venv is not committed; every registered command calls this first.
set -e
cd "$(dirname "$0")"
V="${VERIF_VENV:-$PWD/.venv}"
if [ ! -x "$V/bin/python" ] || ! "$V/bin/python" -c "import z3, networkx, numpy" >/dev/null 2>&1; then
    rm -rf "$V"
    /venv/bin/python -m venv "$V" >/dev/null
    SP=$("$V/bin/python" -c "import sysconfig; print(sysconfig.get_paths()['purelib'])")
    printf '%s\n%s\n' /venv/lib/python3.12/site-packages /repo/src > "$SP/zz_overlay.pth"
    PIP_NO_INDEX=1 "$V/bin/pip" install -q --no-index --find-links /opt/veriftools/wheels z3-solver crosshair-tool >/dev/null 2>&1 \
      || PIP_NO_INDEX=1 "$V/bin/pip" install -q --no-index --find-links /opt/veriftools/wheels z3-solver >/dev/null
fi
mkdir -p evidence replay
exit 0
