"""Step harness (DESIGN 3.3/4): ONE edit from an arbitrary state satisfying Inv.

The real user actions / primitive actions of funtracks run unmodified on a
SolutionTracks whose graph is a SymDiGraph and whose TrackAnnotator lookups are
LazyIdMaps.  Each complete path carries the obligations of C01 C02(b) C03 C04
C05 C06 C11 C20.
"""
from __future__ import annotations

import networkx as nx
import z3

from sx import inv as I
from sx.graph import SymDiGraph
from sx.maps import LazyIdMap
from sx.rt import reraise_model_gap  # noqa: F401
from sx.rt import (And, Implies, Not, Or, SBool, SInt, Unsupported, count, int_shim, same_value, toint,
                   unwrap, zb)

import funtracks.data_model.tracks as _tracks_mod

_tracks_mod.int = int_shim

from funtracks.actions import (AddEdge, AddNode, DeleteEdge, DeleteNode, UpdateNodeAttrs,  # noqa: E402
                               UpdateTrackIDs)
from funtracks.actions._base import Action  # noqa: E402
from funtracks.data_model import SolutionTracks  # noqa: E402
from funtracks.exceptions import InvalidActionError  # noqa: E402
from funtracks.user_actions import (UserAddEdge, UserAddNode, UserDeleteEdge, UserDeleteNode,  # noqa: E402
                                    UserSwapPredecessors, UserUpdateNodeAttrs)

T, TID, LID, POS, CUS = "t", "track_id", "lineage_id", "pos", "custom"
ECUS = "edge_custom"  # a registered custom edge feature that no annotator recomputes

USER_ACTIONS = ["UserAddEdge", "UserDeleteEdge", "UserSwapPredecessors", "UserDeleteNode", "UserAddNode",
                "UserUpdateNodeAttrs"]
PRIMITIVES = ["AddNode", "DeleteNode", "AddEdge", "DeleteEdge", "UpdateNodeAttrs", "UpdateTrackIDs"]


class Tok:
    """opaque attribute value that funtracks never inspects"""

    def __init__(self, name):
        self.name = name

    def __repr__(self):
        return f"<{self.name}>"


class _Hist(Action):
    """abstract history entry already on the stacks in the pre-state"""

    def __init__(self, name):
        self.name = name

    def inverse(self):
        raise AssertionError("pre-existing history entry must not be inverted by a single step")

    def __repr__(self):
        return self.name


class Pre:
    """symbolic pre-state + handles"""


def build(ctx, cfg):
    """Build a SolutionTracks in an arbitrary Inv-state with cfg['N'] node slots (+1 spare id)."""
    N = cfg["N"]
    ids = list(range(1, N + 2))  # last id is a spare (dead) slot
    g = SymDiGraph(ids, fresh=False, sym_order=cfg.get("sym_order", True))
    p = Pre()
    p.N, p.ids, p.g = N, ids, g
    p.alive0 = [z3.Bool(f"alive{i}") for i in ids[:N]] + [z3.BoolVal(False)]
    p.adj0 = [[(z3.Bool(f"adj{i}_{j}") if (i != j and i <= N and j <= N) else z3.BoolVal(False)) for j in ids]
              for i in ids]
    p.t0 = [z3.Int(f"t{i}") for i in ids]
    p.tid0 = [z3.Int(f"tid{i}") for i in ids]
    p.lid0 = [z3.Int(f"lid{i}") for i in ids]
    p.cus0 = [z3.Int(f"cus{i}") for i in ids]
    p.pos0 = [Tok(f"pos{i}") for i in ids]
    with_lineage = cfg.get("lineage", True)
    multi_pos = cfg.get("multi_pos", False)
    p.multi_pos = multi_pos
    for s in range(N + 1):
        g.alive[s] = p.alive0[s] if s < N else False
        for t in range(N + 1):
            g.E[s][t] = p.adj0[s][t] if (s != t and s < N and t < N) else False
        if s < N:
            g.nattr[s] = {T: SInt(p.t0[s]), TID: SInt(p.tid0[s]), CUS: SInt(p.cus0[s])}
            if multi_pos:
                g.nattr[s]["y"], g.nattr[s]["x"] = Tok(f"y{s}"), Tok(f"x{s}")
            else:
                g.nattr[s][POS] = p.pos0[s]
            if with_lineage:
                g.nattr[s][LID] = SInt(p.lid0[s])
    p.ecus0 = [[z3.Int(f"ecus{i}_{j}") for j in ids] for i in ids]
    for s in range(N):
        for t in range(N):
            if s != t:
                g.eattr[(s, t)] = {ECUS: SInt(p.ecus0[s][t])}
    sh = I.Shape(g)
    p.sh0 = sh
    pre = dict(I.forest(sh))
    pre["forward"] = I.forward(sh, p.t0)
    pre["tracklets"] = I.partition_local(sh, p.tid0, lambda a, b: sh.outdeg[a] == 1)
    if with_lineage and not cfg.get("drop_lineage_inv", False):
        pre["lineages"] = I.partition_local(sh, p.lid0, lambda a, b: True)
    p.maxt, p.maxl = z3.Int("max_tid"), z3.Int("max_lid")
    pre["max"] = And([Implies(sh.al[i], And(p.tid0[i] <= p.maxt, p.lid0[i] <= p.maxl)) for i in range(N)]
                     + [p.maxt >= 0, p.maxl >= 0])
    ctx.assume(And(list(pre.values())))

    tr = SolutionTracks(nx.DiGraph(), ndim=3, time_attr=T, tracklet_attr=TID,
                        lineage_attr=LID if with_lineage else None, pos_attr=["y", "x"] if multi_pos else None)
    tr.features[ECUS] = {"feature_type": "edge", "value_type": "int", "num_values": 1, "required": False,
                         "default_value": None}
    if not with_lineage:
        # a solution without lineage ids: feature not registered / not active
        tr.disable_features([tr.features.lineage_key])
        tr.features.lineage_key = None
    tr.features[CUS] = {"feature_type": "node", "value_type": "int", "num_values": 1, "required": False,
                        "default_value": None}
    tr.graph = g
    ta = tr.track_annotator
    ta.tracklet_id_to_nodes = LazyIdMap(ids, p.alive0, p.tid0)
    ta.lineage_id_to_nodes = LazyIdMap(ids, p.alive0, p.lid0 if with_lineage else [None] * (N + 1))
    ta.max_tracklet_id, ta.max_lineage_id = SInt(p.maxt), SInt(p.maxl)
    p.hist_u = [_Hist("U1"), _Hist("U2")]
    p.hist_r = [_Hist("R1")]
    tr.action_history.undo_stack = list(p.hist_u)
    tr.action_history.redo_stack = list(p.hist_r)
    p.emitted = []
    tr.refresh.connect(lambda *a: p.emitted.append(a))
    p.tr, p.ta = tr, ta
    p.with_lineage = with_lineage
    ctx.input("N", N)
    ctx.input("lineage", with_lineage)
    ctx.input("alive", p.alive0[:N])
    ctx.input("adj", [row[:N] for row in p.adj0[:N]])
    ctx.input("t", p.t0[:N])
    ctx.input("tid", p.tid0[:N])
    ctx.input("lid", p.lid0[:N])
    ctx.input("cus", p.cus0[:N])
    ctx.input("ecus", [row[:N] for row in p.ecus0[:N]])
    ctx.input("multi_pos", multi_pos)
    ctx.input("succ_order", g.order_log)
    ctx.input("max_tid", p.maxt)
    ctx.input("max_lid", p.maxl)
    ctx.env.update(N=N, alive=p.alive0, adj=p.adj0, t=p.t0, tid=p.tid0, lid=p.lid0, outdeg0=sh.outdeg,
                   indeg0=sh.indeg, lineage=with_lineage)
    return p


# ------------------------------------------------------------------ snapshots
class Snap:
    def __init__(self, p, k):
        g, tr, ta = p.g, p.tr, p.ta
        self.sh = I.Shape(g)
        self.node_keys = list(tr.features.node_features.keys())
        self.edge_keys = list(tr.features.edge_features.keys())
        self.nattr = [{key: g.nattr[s].get(key) for key in self.node_keys} for s in range(g.N)]
        self.eattr = {(s, t): {key: g.eattr.get((s, t), {}).get(key) for key in self.edge_keys}
                      for s in range(g.N) for t in range(g.N)} if self.edge_keys else {}
        self.t = I.attr_terms(g, T)
        self.tid = I.attr_terms(g, TID)
        self.lid = I.attr_terms(g, LID)
        self.mem_t = [ta.tracklet_id_to_nodes.membership(k, n) for n in g.ids]
        self.mem_l = [ta.lineage_id_to_nodes.membership(k, n) for n in g.ids]
        self.wf = And(ta.tracklet_id_to_nodes.wellformed(), ta.lineage_id_to_nodes.wellformed())
        self.maxt, self.maxl = toint(ta.max_tracklet_id), toint(ta.max_lineage_id)
        self.undo = list(tr.action_history.undo_stack)
        self.redo = list(tr.action_history.redo_stack)
        self.counter = tr.node_id_counter
        self.feature_keys = sorted(tr.features.keys())


def same_graph(a: Snap, b: Snap):
    n = a.sh.n
    cs = [a.sh.al[i] == b.sh.al[i] for i in range(n)]
    cs += [a.sh.A[i][j] == b.sh.A[i][j] for i in range(n) for j in range(n)]
    return And(cs)


def same_attrs(a: Snap, b: Snap):
    n = a.sh.n
    cs = []
    for i in range(n):
        per = [same_value(a.nattr[i].get(k), b.nattr[i].get(k)) for k in set(a.node_keys) | set(b.node_keys)]
        cs.append(Implies(a.sh.al[i], And(per)))
    for (s, t), d in a.eattr.items():
        per = [same_value(d.get(k), b.eattr.get((s, t), {}).get(k)) for k in a.edge_keys]
        cs.append(Implies(a.sh.A[s][t], And(per)))
    return And(cs)


def same_lookups(a: Snap, b: Snap):
    n = a.sh.n
    cs = [a.mem_t[i] == b.mem_t[i] for i in range(n)] + [a.mem_l[i] == b.mem_l[i] for i in range(n)]
    cs += [a.maxt == b.maxt, a.maxl == b.maxl]
    return And(cs)


def same_history(a: Snap, b: Snap):
    return (len(a.undo) == len(b.undo) and all(x is y for x, y in zip(a.undo, b.undo))
            and len(a.redo) == len(b.redo) and all(x is y for x, y in zip(a.redo, b.redo)))


# ------------------------------------------------------------------ property formulas on a snapshot
def c03(s: Snap):
    d = dict(I.forest(s.sh))
    d["forward"] = I.forward(s.sh, s.t)
    return d


def c04_partition(s: Snap):
    return And(I.has_all(s.sh, s.tid), I.partition_exact(s.sh, s.tid, s.sh.seg()))


def c05_partition(s: Snap):
    return And(I.has_all(s.sh, s.lid), I.partition_exact(s.sh, s.lid, s.sh.comp()))


def c06_lookups(s: Snap, k, with_lineage):
    n = s.sh.n
    cs = [s.mem_t[i] == (And(s.sh.al[i], s.tid[i] == k) if s.tid[i] is not None else z3.BoolVal(False))
          for i in range(n)]
    if with_lineage:
        cs += [s.mem_l[i] == (And(s.sh.al[i], s.lid[i] == k) if s.lid[i] is not None else z3.BoolVal(False))
               for i in range(n)]
    return And(cs)


def c06_fresh(s: Snap, with_lineage):
    n = s.sh.n
    cs = [Implies(s.sh.al[i], s.tid[i] <= s.maxt) for i in range(n) if s.tid[i] is not None]
    if with_lineage:
        cs += [Implies(s.sh.al[i], s.lid[i] <= s.maxl) for i in range(n) if s.lid[i] is not None]
    return And(cs)


# ------------------------------------------------------------------ the step
def pick_node(ctx, p, label, dead_ok=True):
    """choose a node id among the N slots (alive or not) and the spare id"""
    i = ctx.choose(p.N + (1 if dead_ok else 0), label)
    return p.ids[i]


def perform(ctx, p, cfg, sfx=""):
    """Run the configured action with symbolic arguments.  Returns (action|None, exc|None, named)
    sfx: suffix of the argument variables / input names of a SECOND step (follow-up runs)"""
    kind = cfg["action"]
    env_update = ctx.env.update if not sfx else (lambda **kw: None)
    tr = p.tr
    named = dict(nodes=[], tid=None, edge=None, new=None)
    args = {}
    try:
        if kind in ("UserAddEdge", "UserDeleteEdge", "UserSwapPredecessors", "AddEdge", "DeleteEdge"):
            u = pick_node(ctx, p, "u" + sfx)
            v = pick_node(ctx, p, "v" + sfx)
            named["nodes"] = [u, v]
            args = dict(u=u, v=v)
            if kind == "UserAddEdge":
                force = z3.Bool("force" + sfx)
                named["edge"] = (u, v)
                fv = bool(SBool(force))
                args["force"] = fv
                ctx.input("args" + sfx, args)
                env_update(u=u, v=v, force=fv, su=u - 1, sv=v - 1)
                act = UserAddEdge(tr, (u, v), force=fv)
            elif kind == "UserDeleteEdge":
                named["edge"] = (u, v)
                ctx.input("args" + sfx, args)
                env_update(u=u, v=v, su=u - 1, sv=v - 1)
                act = UserDeleteEdge(tr, (u, v))
            elif kind == "UserSwapPredecessors":
                ctx.input("args" + sfx, args)
                env_update(u=u, v=v, su=u - 1, sv=v - 1)
                act = UserSwapPredecessors(tr, (u, v))
            elif kind == "AddEdge":
                ctx.input("args" + sfx, args)
                # documented precondition of the primitive ("adding a NEW edge"): the edge is not there yet
                if u - 1 < p.N and v - 1 < p.N:
                    ctx.assume(Not(p.sh0.A[u - 1][v - 1]))
                act = AddEdge(tr, (u, v))
            else:
                ctx.input("args" + sfx, args)
                act = DeleteEdge(tr, (u, v))
        elif kind == "UserDeleteNode":
            n = pick_node(ctx, p, "n" + sfx)
            named["nodes"] = [n]
            args = dict(n=n)
            ctx.input("args" + sfx, args)
            env_update(n=n, sn=n - 1)
            act = UserDeleteNode(tr, n)
        elif kind == "DeleteNode":
            n = pick_node(ctx, p, "n" + sfx, dead_ok=False)
            s = n - 1
            # documented precondition: no incident edges
            ctx.assume(And(p.sh0.al[s], p.sh0.indeg[s] == 0, p.sh0.outdeg[s] == 0))
            args = dict(n=n)
            ctx.input("args" + sfx, args)
            act = DeleteNode(tr, n)
        elif kind in ("UserAddNode", "AddNode"):
            n = p.ids[p.N - 1 + ctx.choose(2, "newid" + sfx)]  # the last ordinary slot or the spare one
            nt, ntid, nlid, ncus = z3.Int("new_t" + sfx), z3.Int("new_tid" + sfx), z3.Int("new_lid" + sfx), z3.Int("new_cus" + sfx)
            names = ["full", "no_time", "no_track_id", "no_pos"]
            if p.multi_pos:
                names.append("partial_pos")
            if p.with_lineage and kind == "AddNode":
                names.append("with_lineage")
            shape_name = names[ctx.choose(len(names), "attrs" + sfx)]
            shape = 0 if (shape_name == "full" and p.with_lineage and kind == "AddNode") else 1
            attrs = {T: SInt(nt), TID: SInt(ntid), CUS: SInt(ncus)}
            if p.multi_pos:
                attrs["y"], attrs["x"] = Tok("newy"), Tok("newx")
            else:
                attrs[POS] = Tok("newpos")
            if shape_name == "no_time":
                del attrs[T]
            elif shape_name == "no_track_id":
                del attrs[TID]
            elif shape_name == "no_pos":
                for kk in (POS, "y", "x"):
                    attrs.pop(kk, None)
            elif shape_name == "partial_pos":
                del attrs["x"]
            elif shape_name == "with_lineage":
                attrs[LID] = SInt(nlid)
            named["tid"] = ntid
            named["new"] = n
            args = dict(n=n, t=nt, tid=ntid, lid=nlid, cus=ncus, shape=shape_name)
            env_update(n=n, sn=n - 1, new_t=nt, new_tid=ntid, shape=shape_name)
            if kind == "UserAddNode":
                force = z3.Bool("force" + sfx)
                fv = bool(SBool(force))
                args["force"] = fv
                env_update(force=fv)
                ctx.input("args" + sfx, args)
                act = UserAddNode(tr, n, attrs, force=fv)
            else:
                ctx.assume(Not(p.sh0.al[n - 1]))  # primitive adds a *new* node
                if shape == 0 and p.with_lineage:
                    ctx.assume(False)  # primitive on a lineage-enabled solution: caller provides the lineage id
                ctx.input("args" + sfx, args)
                act = AddNode(tr, n, attrs)
        elif kind in ("UserUpdateNodeAttrs", "UpdateNodeAttrs"):
            n = pick_node(ctx, p, "n" + sfx)
            keys = [CUS, T, TID, LID, POS, "unregistered"]
            key = keys[ctx.choose(len(keys), "key" + sfx)]
            val, val2 = z3.Int("new_val" + sfx), z3.Int("new_val2" + sfx)
            # optionally a second attribute in the same call (dict order matters for half-applied updates)
            k2 = ctx.choose(len(keys) + 1, "key2" + sfx)
            key2 = None if k2 == len(keys) or keys[k2] == key else keys[k2]
            attrs = {key: SInt(val)}
            if key2 is not None:
                attrs[key2] = SInt(val2)
            named["nodes"] = [n]
            args = dict(n=n, key=key, val=val, key2=key2, val2=val2)
            ctx.input("args" + sfx, args)
            env_update(n=n, key=key)
            if kind == "UserUpdateNodeAttrs":
                act = UserUpdateNodeAttrs(tr, n, attrs)
            else:
                act = UpdateNodeAttrs(tr, n, attrs)
        elif kind == "UpdateTrackIDs":
            n = pick_node(ctx, p, "n" + sfx, dead_ok=False)
            s = n - 1
            ntid, nlid = z3.Int("new_tid" + sfx), z3.Int("new_lid" + sfx)
            use_l = ctx.choose(2, "with_lid" + sfx) == 1
            sh = p.sh0
            # documented precondition: the new id is not found downstream; the callers in
            # funtracks start at the head of a segment or right below a removed edge; we take
            # the weakest: start node alive and the new tracklet id unused in its component.
            ctx.assume(sh.al[s])
            comp = sh.comp()
            ctx.assume(And([Implies(And(sh.al[j], comp[s][j]), p.tid0[j] != ntid) for j in range(p.N)]))
            args = dict(n=n, tid=ntid, lid=nlid if use_l else None)
            ctx.input("args" + sfx, args)
            act = UpdateTrackIDs(tr, n, SInt(ntid), SInt(nlid) if use_l else None)
        else:
            raise AssertionError(kind)
    except Unsupported:
        raise
    except Exception as e:  # refused
        reraise_model_gap(e)
        return None, e, named, args
    return act, None, named, args


def harness(ctx, cfg):
    p = build(ctx, cfg)
    if cfg.get("bounded") is not None:
        # BOUNDED-ID variant: every time / id / argument lies in 0..B, so that code which uses them as dict keys (memo
        # tables, sets) can be followed - hashing concretises a term by forks over its finite domain.  (z3 constants
        # are identified by name: the argument constants created later are constrained here.)
        B = cfg["bounded"]
        terms = list(p.t0[:p.N]) + list(p.tid0[:p.N]) + list(p.lid0[:p.N]) + [toint(p.maxt), toint(p.maxl)]
        terms += [z3.Int(nm) for nm in ("new_t", "new_tid", "new_lid", "q_track:after_edit", "q_time:after_edit",
                                        "q_track:after_undo", "q_time:after_undo")]
        ctx.assume(And([And(x >= 0, x <= B) for x in terms if x is not None]))
    kind = cfg["action"]
    is_user = kind.startswith("User")
    k = z3.Int("k_fresh")
    disabled = list(cfg.get("disable", []))
    if disabled:
        # C10: a disabled feature (stored values arbitrary) is no longer changed by edits
        p.tr.disable_features(disabled)
        ctx.input("disabled", disabled)
    raw_n0 = [dict(d) for d in p.g.nattr]
    S0 = Snap(p, k)
    act, exc, named, args = perform(ctx, p, cfg)
    ctx.input("action", kind)
    ctx.env.update(action=kind)
    S1 = Snap(p, k)
    props = cfg.get("props")

    def want(pid):
        return props is None or pid in props

    if exc is not None:
        forceable = getattr(exc, "forceable", None)
        ctx.tag(f"refused:{type(exc).__name__}" + (":forceable" if forceable else ""))
        ctx.env.update(exc=type(exc).__name__)
        if is_user and want("C11"):
            ctx.oblige("C11.graph_unchanged", same_graph(S0, S1), "C11")
            ctx.oblige("C11.attrs_unchanged", same_attrs(S0, S1), "C11")
            ctx.oblige("C11.lookups_unchanged", same_lookups(S0, S1), "C11")
            ctx.oblige("C11.history_unchanged", same_history(S0, S1), "C11")
            ctx.oblige("C11.no_refresh", len(p.emitted) == 0, "C11")
            ctx.oblige("C11.registry_unchanged", S0.feature_keys == S1.feature_keys and S0.counter == S1.counter,
                       "C11")
        if is_user and want("C20"):
            ctx.oblige("C20.refused_emits_none", len(p.emitted) == 0, "C20")
            ctx.oblige("C20.signal_delivers_after_refusal", signal_delivers(p), "C20")
        if is_user and want("C03") and kind == "UserAddEdge":
            u, v = named["nodes"]
            both = And(p.sh0.al[u - 1], p.sh0.al[v - 1])
            # structural refusals are InvalidActionError (forceable exactly for a merge)
            ctx.oblige("C03.refusal_type", Implies(both, isinstance(exc, InvalidActionError)), "C03")
        return

    sub = ",".join(type(a).__name__ for a in getattr(act, "actions", []))
    ctx.tag("accepted")
    ctx.tag(f"acts:{sub}" if sub else "acts:-")
    ctx.env.update(exc=None, acts=sub)
    L = p.with_lineage
    emitted1 = list(p.emitted)
    if disabled and want("C10"):
        cs = []
        for i in range(p.g.N):
            for key in disabled:
                cs.append(Implies(And(S0.sh.al[i], S1.sh.al[i]),
                                  same_value(raw_n0[i].get(key), p.g.nattr[i].get(key))))
        if LID in disabled:
            cs += [S0.mem_l[i] == S1.mem_l[i] for i in range(p.g.N)] + [S0.maxl == S1.maxl]
        if TID in disabled:
            cs += [S0.mem_t[i] == S1.mem_t[i] for i in range(p.g.N)] + [S0.maxt == S1.maxt]
        ctx.oblige("C10.disabled_feature_untouched_by_edit", And(cs), "C10")

    if is_user:
        if want("C03"):
            for name, f in c03(S1).items():
                ctx.oblige(f"C03.{name}", f, "C03")
            n = S0.sh.n
            e = named["edge"]
            cs = []
            for a in range(n):
                for b in range(n):
                    if e is not None and (p.ids[a], p.ids[b]) == tuple(e):
                        continue
                    removed = And(S0.sh.A[a][b], Not(S1.sh.A[a][b]))
                    conflict = Or(Not(S1.sh.al[a]), Not(S1.sh.al[b]),
                                  Or([S1.sh.A[q][b] for q in range(n) if q != a]),
                                  Or([And(S1.sh.A[a][c], Not(S0.sh.A[a][c])) for c in range(n)]))
                    cs.append(Implies(removed, conflict))
            ctx.oblige("C03.only_conflicting_edges_removed", And(cs), "C03")
        if want("C04"):
            ctx.oblige("C04.partition", c04_partition(S1), "C04")
        if want("C05") and L:
            ctx.oblige("C05.partition", c05_partition(S1), "C05")
        if want("C04") or (want("C05") and L):
            comp0 = S0.sh.comp()
            n = S0.sh.n
            cs4, cs5 = [], []
            for i in range(n):
                far = [Not(comp0[i][m - 1]) for m in named["nodes"] if m - 1 < n]
                if named["tid"] is not None:
                    far += [Implies(And(S0.sh.al[j], comp0[i][j]), p.tid0[j] != named["tid"]) for j in range(p.N)]
                if i >= p.N:
                    continue
                pre = And([S0.sh.al[i]] + far)
                cs4.append(Implies(pre, And(S1.sh.al[i], S1.tid[i] == p.tid0[i]) if S1.tid[i] is not None
                                   else Not(pre)))
                if L:
                    cs5.append(Implies(pre, And(S1.sh.al[i], S1.lid[i] == p.lid0[i]) if S1.lid[i] is not None
                                       else Not(pre)))
            if want("C04"):
                ctx.oblige("C04.frame", And(cs4), "C04")
            if want("C05") and L:
                ctx.oblige("C05.frame", And(cs5), "C05")
        if want("C06"):
            ctx.oblige("C06.lookups", c06_lookups(S1, k, L), "C06")
            ctx.oblige("C06.wellformed", S1.wf, "C06")
            ctx.oblige("C06.max_ids", c06_fresh(S1, L), "C06")
        if want("C02"):
            ok = (len(S1.undo) == len(S0.undo) + len(S0.redo) + 1 and S1.undo[-1] is act and S1.redo == []
                  and all(x is y for x, y in zip(S1.undo, S0.undo + S0.redo)))
            ctx.oblige("C02.one_entry", ok, "C02")
        if want("C20"):
            payload_ok = True
            if len(emitted1) == 1:
                if kind == "UserAddNode":
                    payload_ok = emitted1[0] == (named["new"],)
                else:
                    payload_ok = emitted1[0] in ((), (None,))
            ctx.oblige("C20.one_refresh", len(emitted1) == 1, "C20")
            ctx.oblige("C20.payload", payload_ok, "C20")
        ctx.witness("state_changed", Not(And(same_graph(S0, S1), same_attrs(S0, S1))))

    if is_user and props and cfg.get("followup", True) and not disabled:
        if followup(ctx, p, cfg, S1, k, "edit"):
            return
    if kind == "UpdateTrackIDs" and (want("C04") or want("C05")):
        # contract of the primitive that every lineage/track update of the user actions rests on:
        # the new lineage id reaches EVERY descendant of the start node (through divisions), the new
        # track id exactly the nodes of the start node's segment from the start node downwards
        n = S0.sh.n
        s0 = args["n"] - 1
        A0 = S0.sh.A
        reach = [[A0[i][j] for j in range(n)] for i in range(n)]
        segr = [[And(A0[i][j], S0.sh.outdeg[i] == 1) for j in range(n)] for i in range(n)]
        for m in range(n):
            reach = [[Or(reach[i][j], And(reach[i][m], reach[m][j])) for j in range(n)] for i in range(n)]
            segr = [[Or(segr[i][j], And(segr[i][m], segr[m][j])) for j in range(n)] for i in range(n)]
        c5, c4 = [], []
        for j in range(p.N):
            below = Or(z3.BoolVal(j == s0), reach[s0][j])
            onseg = Or(z3.BoolVal(j == s0), segr[s0][j])
            if args["lid"] is not None and S1.lid[j] is not None:
                c5.append(Implies(S0.sh.al[j], S1.lid[j] == z3.If(below, args["lid"], p.lid0[j])))
            if S1.tid[j] is not None:
                c4.append(Implies(S0.sh.al[j], S1.tid[j] == z3.If(onseg, args["tid"], p.tid0[j])))
        if want("C05") and p.with_lineage:
            ctx.oblige("C05.lineage_update_reaches_all_descendants", And(c5), "C05")
        if want("C04"):
            ctx.oblige("C04.track_update_covers_exactly_the_segment", And(c4), "C04")
    if cfg.get("query_after") and is_user and want("C06"):
        # ONE query per path: (after the edit | after its undo) x (neighbours | presence)
        p.query_sel = ctx.choose(4, "query_point")
        if p.query_sel < 2:
            queries_at(ctx, p, S1, ":after_edit")
    fu_undo = bool(is_user and props and cfg.get("followup", True) and not disabled
                   and any(q in FOLLOW_PROPS for q in props))
    if want("C01") or want("C20") or want("C02") or want("C06") or fu_undo:
        # invert, then invert the inverse (through the history for user actions)
        del p.emitted[:]
        try:
            if is_user:
                r1 = p.tr.undo()
                S2 = Snap(p, k)
                e2 = list(p.emitted)
                del p.emitted[:]
                if cfg.get("query_after") and want("C06") and r1 is True and p.query_sel >= 2:
                    queries_at(ctx, p, S2, ":after_undo")
                if fu_undo and r1 is True and followup(ctx, p, cfg, S2, k, "undo"):
                    return
                if not (want("C01") or want("C20") or want("C02") or want("C06")):
                    return
                r2 = p.tr.redo()
                S3 = Snap(p, k)
                e3 = list(p.emitted)
            else:
                iv = act.inverse()
                S2 = Snap(p, k)
                iv2 = iv.inverse()
                S3 = Snap(p, k)
                r1 = r2 = True
                e2 = e3 = [()]
        except Unsupported:
            raise
        except Exception as e:
            reraise_model_gap(e)
            ctx.tag(f"inverse_raised:{type(e).__name__}")
            ctx.env.update(inverse_exc=type(e).__name__)
            if want("C01"):
                ctx.oblige("C01.inverse_applies", False, "C01")
            return
        S4 = S5 = None
        if cfg.get("twice", True) and (want("C01") or want("C02")):
            # the same history entry is inverted a second time (e u r u r): an inversion must not wear out
            # the stored action
            try:
                if is_user:
                    r3 = p.tr.undo()
                    S4 = Snap(p, k)
                    r4 = p.tr.redo()
                    S5 = Snap(p, k)
                else:
                    iv3 = iv2.inverse()
                    S4 = Snap(p, k)
                    iv3.inverse()
                    S5 = Snap(p, k)
                    r3 = r4 = True
            except Unsupported:
                raise
            except Exception as e:
                reraise_model_gap(e)
                ctx.tag(f"second_inverse_raised:{type(e).__name__}")
                if want("C01"):
                    ctx.oblige("C01.inverse_applies_again", False, "C01")
                if is_user and want("C02"):
                    ctx.oblige("C02.repeated_undo_applies", False, "C02")
                return
            if want("C01"):
                ctx.oblige("C01.second_undo", And(same_graph(S0, S4), same_attrs(S0, S4)), "C01")
                ctx.oblige("C01.second_redo", And(same_graph(S1, S5), same_attrs(S1, S5)), "C01")
            if is_user and want("C02"):
                # the timeline of C02 predicts the states, not only the return values
                ctx.oblige("C02.repeated_undo_reaches_timeline_state", And(same_graph(S0, S4), same_attrs(S0, S4)),
                           "C02")
                ctx.oblige("C02.repeated_redo_reaches_timeline_state", And(same_graph(S1, S5), same_attrs(S1, S5)),
                           "C02")
                ctx.oblige("C02.second_undo_redo_return", r3 is True and r4 is True, "C02")
                ctx.oblige("C02.second_round_stack_kept", all(x is y for x, y in zip(S5.undo, S1.undo))
                           and len(S5.undo) == len(S1.undo) and S5.redo == [], "C02")
        if want("C01"):
            ctx.oblige("C01.undo_graph", same_graph(S0, S2), "C01")
            ctx.oblige("C01.undo_attrs", same_attrs(S0, S2), "C01")
            ctx.oblige("C01.redo_graph", same_graph(S1, S3), "C01")
            ctx.oblige("C01.redo_attrs", same_attrs(S1, S3), "C01")
        if want("C06"):
            ctx.oblige("C06.lookups_after_undo", And(c06_lookups(S2, k, L), S2.wf, c06_fresh(S2, L)), "C06")
            ctx.oblige("C06.lookups_after_redo", And(c06_lookups(S3, k, L), S3.wf, c06_fresh(S3, L)), "C06")
        if is_user and want("C02"):
            ctx.oblige("C02.undo_redo_return", r1 is True and r2 is True, "C02")
            ctx.oblige("C02.undo_stack_kept", all(x is y for x, y in zip(S3.undo, S1.undo))
                       and len(S3.undo) == len(S1.undo) and S3.redo == [], "C02")
        if is_user and want("C20"):
            ctx.oblige("C20.undo_one_refresh", len(e2) == 1 and len(e3) == 1, "C20")
            ctx.oblige("C20.signal_delivers_after_edit", signal_delivers(p), "C20")


def signal_delivers(p):
    """invariant clause behind C20 (the NEXT change is announced too): after the call the refresh signal still reaches
    the listener that was connected before it - one probe emission, exactly one delivery (a signal left blocked,
    paused or disconnected by an earlier call would swallow the notification of every later change)"""
    n0 = len(p.emitted)
    p.tr.refresh.emit("verif-probe")
    ok = len(p.emitted) == n0 + 1
    del p.emitted[n0:]
    return ok


# ------------------------------------------------------------------ induction-hypothesis audit (two-step runs)
FOLLOW_PROPS = ("C01", "C03", "C04", "C05", "C06")


def inv_clauses(S, k, L):
    """the clauses of Inv on a snapshot, by owning property"""
    d = {"C03": And(list(c03(S).values())), "C04": c04_partition(S),
         "C06": And(c06_lookups(S, k, L), S.wf, c06_fresh(S, L))}
    if L:
        d["C05"] = c05_partition(S)
    return d


def followup(ctx, p, cfg, S, k, after):
    """The one-step argument for property P assumes the WHOLE invariant in the pre-state, so it is only an
    induction if every accepted step re-establishes the whole invariant.  P's own check therefore asks, on every
    accepted path, whether a clause of Inv owned by ANOTHER property can be false in the post-state.  On a tree
    where the other properties hold this is one unsat query.  If it is satisfiable, the induction hypothesis of P
    is not available for the next step: the path is continued from those broken states with a SECOND symbolic
    user action, and P is asserted on the state after it (a counterexample is a two-edit history, replayed as
    such).  Returns True if the path was continued (the caller stops)."""
    props = [q for q in (cfg.get("props") or []) if q in FOLLOW_PROPS]
    if not props:
        return False
    L = p.with_lineage
    cl = inv_clauses(S, k, L)
    others = [f for q, f in cl.items() if q not in props]
    if not others:
        return False
    broken = Not(And(others))
    if not ctx._check(zb(unwrap(broken))):
        return False
    if ctx.choose(2, "followup_" + after) == 0:
        return False
    ctx.assume(broken)
    ctx.tag("followup:inv_broken_after_" + after)
    ctx.input("followup_after", after)
    users = USER_ACTIONS[:5]
    kind2 = users[ctx.choose(len(users), "action2")]
    ctx.input("action2", kind2)
    cfg2 = dict(cfg)
    cfg2["action"] = kind2
    try:
        act2, exc2, named2, args2 = perform(ctx, p, cfg2, sfx="_2")
    except Unsupported:
        raise
    if exc2 is not None:
        ctx.tag("followup:second_refused")
        return True
    ctx.tag("followup:second_accepted")
    S2 = Snap(p, k)
    cl2 = inv_clauses(S2, k, L)
    for q in props:
        if q in cl2:
            ctx.oblige(f"{q}.holds_after_two_edits", cl2[q], q)
    if "C01" in props:
        # the second edit, made from a state outside Inv, must still be exactly invertible
        try:
            p.tr.undo()
            S3 = Snap(p, k)
            p.tr.redo()
            S4 = Snap(p, k)
        except Unsupported:
            raise
        except Exception as e:
            reraise_model_gap(e)
            ctx.tag(f"followup:inverse_raised:{type(e).__name__}")
            ctx.oblige("C01.second_edit_inverse_applies", False, "C01")
            return True
        ctx.oblige("C01.second_edit_undo_exact", And(same_graph(S, S3), same_attrs(S, S3)), "C01")
        ctx.oblige("C01.second_edit_redo_exact", And(same_graph(S2, S4), same_attrs(S2, S4)), "C01")
    return True


def queries_at(ctx, p, S, where):
    """C06 at a HISTORY-BUILT state (after the edit / after its undo): the track queries against a scan of the current
    graph, with fresh unconstrained arguments.  A query answered from bookkeeping that an edit or an undo left stale
    (or from a cache a query itself filled earlier) shows up here, not in the run from a constructed state."""
    tr, n = p.tr, S.sh.n
    qk, qt = z3.Int("q_track" + where), z3.Int("q_time" + where)
    ctx.input("query_args" + where, dict(k=qk, t=qt))
    on = [And(S.sh.al[i], S.tid[i] == qk) if S.tid[i] is not None else z3.BoolVal(False) for i in range(n)]
    tt = [S.t[i] if S.t[i] is not None else z3.IntVal(0) for i in range(n)]
    if p.query_sel % 2 == 0:
        pred, succ = tr.get_track_neighbors(SInt(qk), SInt(qt))

        def is_pred(i):
            return And(on[i], tt[i] < qt, And([Implies(And(on[j], tt[j] < qt), tt[j] <= tt[i]) for j in range(n) if j != i]))

        def is_succ(i):
            return And(on[i], tt[i] > qt, And([Implies(And(on[j], tt[j] > qt), tt[j] >= tt[i]) for j in range(n) if j != i]))

        none_pred = Not(Or([And(on[i], tt[i] < qt) for i in range(n)]))
        none_succ = Not(Or([And(on[i], tt[i] > qt) for i in range(n)]))
        ctx.oblige("C06.track_neighbors_pred" + where,
                   none_pred if pred is None else is_pred(p.g.ids.index(int(pred))), "C06")
        ctx.oblige("C06.track_neighbors_succ" + where,
                   none_succ if succ is None else is_succ(p.g.ids.index(int(succ))), "C06")
    else:
        r = tr.has_track_id_at_time(SInt(qk), SInt(qt))
        truth = Or([And(on[i], tt[i] == qt) for i in range(n)])
        ctx.oblige("C06.has_track_id_at_time" + where, truth if r else Not(truth), "C06")


# ------------------------------------------------------------------ query semantics (C06)
def query_harness(ctx, cfg):
    """get_track_neighbors / has_track_id_at_time / _get_new_node_ids against the scan-of-graph
    definitions, from an arbitrary Inv-state, with unconstrained integer arguments"""
    p = build(ctx, cfg)
    tr, sh, N = p.tr, p.sh0, p.N
    qk, qt = z3.Int("q_track"), z3.Int("q_time")
    ctx.input("action", "query")
    ctx.input("args", dict(k=qk, t=qt))
    which = ctx.choose(3, "query")
    if which == 0:
        pred, succ = tr.get_track_neighbors(SInt(qk), SInt(qt))
        ctx.tag("neighbors")
        on = [And(sh.al[i], p.tid0[i] == qk) for i in range(N)]

        def is_pred(i):
            return And(on[i], p.t0[i] < qt, And([Implies(And(on[j], p.t0[j] < qt), p.t0[j] <= p.t0[i])
                                                for j in range(N) if j != i]))

        def is_succ(i):
            return And(on[i], p.t0[i] > qt, And([Implies(And(on[j], p.t0[j] > qt), p.t0[j] >= p.t0[i])
                                                for j in range(N) if j != i]))

        none_pred = Not(Or([And(on[i], p.t0[i] < qt) for i in range(N)]))
        none_succ = Not(Or([And(on[i], p.t0[i] > qt) for i in range(N)]))
        ctx.oblige("C06.track_neighbors_pred", none_pred if pred is None else is_pred(p.ids.index(int(pred))), "C06")
        ctx.oblige("C06.track_neighbors_succ", none_succ if succ is None else is_succ(p.ids.index(int(succ))), "C06")
    elif which == 1:
        r = tr.has_track_id_at_time(SInt(qk), SInt(qt))
        ctx.tag("has_track_at_time")
        truth = Or([And(sh.al[i], p.tid0[i] == qk, p.t0[i] == qt) for i in range(N)])
        ctx.oblige("C06.has_track_id_at_time", truth if r else Not(truth), "C06")
    else:
        cnt = z3.Int("id_counter")
        ctx.assume(And(cnt >= 1, cnt <= N + 2))
        tr.node_id_counter = SInt(cnt)
        n = 1 + ctx.choose(3, "n_ids")
        ctx.input("args", dict(counter=cnt, n=n))
        try:
            ids = tr._get_new_node_ids(n)
        except Unsupported:
            raise
        ctx.tag("new_node_ids")
        vals = [toint(x) for x in ids]
        fresh = And([Not(Or([And(sh.al[i], v == p.ids[i]) for i in range(N)])) for v in vals])
        distinct = z3.Distinct(vals) if len(vals) > 1 else z3.BoolVal(True)
        later = And([toint(tr.node_id_counter) > v for v in vals])
        ctx.oblige("C06.new_node_ids_unused", fresh, "C06")
        ctx.oblige("C06.new_node_ids_distinct", distinct, "C06")
        ctx.oblige("C06.counter_moves_past_issued_ids", later, "C06")
    nt, nl = tr.get_next_track_id(), tr.get_next_lineage_id()
    ctx.oblige("C06.next_ids_unused", And([Implies(sh.al[i], And(toint(nt) != p.tid0[i], toint(nl) != p.lid0[i]))
                                           for i in range(N)]), "C06")


# ------------------------------------------------------------------ construction (C04/C05/C06 base case)
def construct_harness(ctx, cfg):
    """The real SolutionTracks constructor on a symbolic forest WITHOUT ids: bulk _assign_tracklet_ids /
    _assign_lineage_ids (networkx's own weakly_connected_components run on the realised graph)."""
    N = cfg["N"]
    ids = list(range(1, N + 1))
    g = SymDiGraph(ids, tag="g", sym_order=False)
    for s in range(N):
        g.E[s][s] = False
    tm = [z3.Int(f"t{i}") for i in ids]
    for s in range(N):
        g.nattr[s] = {T: SInt(tm[s]), POS: Tok(f"pos{s}")}
    sh = I.Shape(g)
    ctx.assume(And(list(I.forest(sh).values()) + [I.forward(sh, tm)]))
    ctx.input("N", N)
    ctx.input("alive", list(sh.al))
    ctx.input("adj", [list(r) for r in sh.A])
    ctx.input("t", tm)
    ctx.input("action", "construct")
    tr = SolutionTracks(g, ndim=3, time_attr=T, tracklet_attr=TID, lineage_attr=LID)
    ctx.tag("constructed")
    sh1 = I.Shape(g)
    tid = I.attr_terms(g, TID)
    lid = I.attr_terms(g, LID)
    same_shape = And([sh.al[i] == sh1.al[i] for i in range(N)] + [sh.A[i][j] == sh1.A[i][j] for i in range(N)
                                                                 for j in range(N)])
    ctx.oblige("C16.construction_keeps_graph", same_shape, "C04")
    ctx.oblige("C04.partition_after_construction", And(I.has_all(sh1, tid), I.partition_exact(sh1, tid, sh1.seg())),
               "C04")
    ctx.oblige("C05.partition_after_construction", And(I.has_all(sh1, lid), I.partition_exact(sh1, lid, sh1.comp())),
               "C05")
    ta = tr.track_annotator
    ok = True
    for d, vals, mx in ((ta.tracklet_id_to_nodes, tid, ta.max_tracklet_id), (ta.lineage_id_to_nodes, lid,
                                                                             ta.max_lineage_id)):
        want = {}
        for i in range(N):
            if g.alive[i] is True or ctx.decide(sh1.al[i]):
                v = ctx.concretize(vals[i]) if vals[i] is not None else None
                want.setdefault(v, []).append(ids[i])
        got = {int(k2): sorted(int(x) for x in v) for k2, v in d.items()}
        if got != {k2: sorted(v) for k2, v in want.items()} or any(k2 is None or k2 > int(mx) for k2 in want):
            ok = False
    ctx.oblige("C06.lookups_after_construction", ok, "C06")
    ctx.witness("division", Or([sh1.outdeg[i] == 2 for i in range(N)]))


# ------------------------------------------------------------------ SolutionTracks.from_tracks
def from_tracks_harness(ctx, cfg):
    """SolutionTracks.from_tracks on a Tracks object whose nodes carry ids on ALL nodes (trusted, consistent)
    or lack them on some node (recomputed): the result must be a solution whose ids are maintained -
    one user action afterwards must still give the exact partitions."""
    from funtracks.data_model import Tracks

    N = cfg["N"]
    ids = list(range(1, N + 1))
    g = SymDiGraph(ids, tag="g", sym_order=False)
    for s in range(N):
        g.E[s][s] = False
    tm = [z3.Int(f"t{i}") for i in ids]
    tid = [z3.Int(f"tid{i}") for i in ids]
    lid = [z3.Int(f"lid{i}") for i in ids]
    sh = I.Shape(g)
    missing = ctx.choose(N + 1, "node_without_ids")  # N = every node carries ids
    pre = list(I.forest(sh).values()) + [I.forward(sh, tm)]
    if missing == N:
        # ids are trusted: any consistent labelling with ids from a small range (they become dict keys)
        pre += [And(1 <= tid[i], tid[i] <= N, 1 <= lid[i], lid[i] <= N) for i in range(N)]
    else:
        # ids are recomputed from scratch: the stale values on the other nodes are irrelevant, keep them concrete
        pre += [And(tid[i] == 1, lid[i] == 1) for i in range(N)]
    if missing == N:
        pre += [I.partition_local(sh, tid, lambda a, b: sh.outdeg[a] == 1), I.partition_local(sh, lid, lambda a, b: True)]
    else:
        pre.append(sh.al[missing])
    ctx.assume(And(pre))
    for s in range(N):
        g.nattr[s] = {T: SInt(tm[s]), POS: Tok(f"pos{s}")}
        if s != missing:
            g.nattr[s][TID] = SInt(tid[s])
            g.nattr[s][LID] = SInt(lid[s])
    ctx.input("N", N)
    ctx.input("alive", list(sh.al))
    ctx.input("adj", [list(r) for r in sh.A])
    ctx.input("t", tm)
    ctx.input("tid", tid)
    ctx.input("lid", lid)
    ctx.input("missing", None if missing == N else ids[missing])
    ctx.input("action", "from_tracks")
    base = Tracks(g, ndim=3, time_attr=T, tracklet_attr=TID, lineage_attr=LID)
    st = SolutionTracks.from_tracks(base)
    ctx.tag("recomputed" if missing != N else "ids_trusted")
    sh1 = I.Shape(g)
    ctx.oblige("C04.partition_after_from_tracks",
               And(I.has_all(sh1, I.attr_terms(g, TID)), I.partition_exact(sh1, I.attr_terms(g, TID), sh1.seg())), "C04")
    ctx.oblige("C05.partition_after_from_tracks",
               And(I.has_all(sh1, I.attr_terms(g, LID)), I.partition_exact(sh1, I.attr_terms(g, LID), sh1.comp())), "C05")
    # one edit afterwards: delete an existing edge
    u = ids[ctx.choose(N, "u")]
    v = ids[ctx.choose(N, "v")]
    ctx.input("args", dict(u=u, v=v))
    if not ctx.decide(sh1.A[u - 1][v - 1]):
        return
    UserDeleteEdge(st, (u, v))
    ctx.tag("edited")
    sh2 = I.Shape(g)
    ctx.oblige("C04.partition_after_from_tracks_and_edit",
               And(I.has_all(sh2, I.attr_terms(g, TID)), I.partition_exact(sh2, I.attr_terms(g, TID), sh2.seg())), "C04")
    ctx.oblige("C05.partition_after_from_tracks_and_edit",
               And(I.has_all(sh2, I.attr_terms(g, LID)), I.partition_exact(sh2, I.attr_terms(g, LID), sh2.comp())), "C05")
