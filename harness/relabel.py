"""C13: relabelling on import (real code: relabel_segmentation, TracksBuilder.handle_segmentation)."""
from __future__ import annotations

import itertools

import networkx as nx
import numpy as np
import z3

from sx.arr import SArr
from sx.rt import reraise_model_gap  # noqa: F401
from sx.rt import And, If, Implies, PathAbort, Unsupported

import funtracks.import_export._tracks_builder as tb
from funtracks.import_export._import_segmentation import relabel_segmentation


def harness(ctx, cfg):
    T, P, M = cfg["T"], cfg["P"], cfg["M"]
    ctx.allow_realise = cfg.get("max_label") is not None
    IDMAX, SEGMAX = cfg.get("idmax", 4), cfg.get("segmax", 3)
    via_builder = cfg.get("via_builder", False)
    dt = np.dtype(cfg.get("dtype", "int64"))
    IDLO = cfg.get("idlo", 0)
    with_pos = cfg.get("with_pos", False)
    # (with loaded positions the importer insists on time + two spatial axes: T x 1 x P)
    seg = SArr.fresh("c", (T, 1, P) if with_pos else (T, P), dt)
    inp = seg.c.copy().reshape(T, P)
    for x in inp.flat:
        ctx.add(x >= 0)
        if dt.itemsize < 8:
            ctx.add(x <= int(np.iinfo(dt).max))  # a cell holds a value of its dtype
        if cfg.get("max_label") is not None:
            # bounded-label run: lets code that leaves the modelled numpy API be followed by realisation
            ctx.add(x <= cfg["max_label"])
    nid = [z3.Int(f"nid{i}") for i in range(M)]
    sid = [z3.Int(f"sid{i}") for i in range(M)]
    tm = [z3.Int(f"tm{i}") for i in range(M)]
    n = 1 + ctx.choose(M, "n_nodes")
    for i in range(n):
        ctx.add(And(IDLO <= nid[i], nid[i] <= IDLO + IDMAX, 1 <= sid[i], sid[i] <= SEGMAX, 0 <= tm[i], tm[i] < T))
    if n > 1:
        ctx.add(z3.Distinct(nid[:n]))
    for i, j in itertools.combinations(range(n), 2):
        ctx.add(Implies(tm[i] == tm[j], sid[i] != sid[j]))
    if not ctx.feasible():
        raise PathAbort()
    # node ids / seg ids / times become dict keys inside the function: small stated ranges,
    # concretised; the CELL LABELS stay arbitrary integers and are what z3 quantifies over
    cn = [ctx.concretize(nid[i]) for i in range(n)]
    cs = [ctx.concretize(sid[i]) for i in range(n)]
    ct = [ctx.concretize(tm[i]) for i in range(n)]
    ctx.input("node_ids", cn)
    ctx.input("seg_ids", cs)
    ctx.input("times", ct)
    ctx.input("cells", [[inp[t, p] for p in range(P)] for t in range(T)])
    ctx.input("via_builder", via_builder)
    ctx.input("dtype", dt.name)
    identity = cn == cs
    ctx.env.update(identity_mapping=identity, via_builder=via_builder)
    g = nx.DiGraph()
    g.add_nodes_from(cn)
    cp = None
    if with_pos:
        # positions are loaded from the source too (the importer then validates graph against segmentation):
        # every node sits on a pixel of its own mask
        cp = [ctx.choose(P, f"pos{i}") for i in range(n)]
        for i in range(n):
            ctx.add(inp[ct[i], cp[i]] == cs[i])
            g.nodes[cn[i]].update(time=ct[i], pos=[0.0, float(cp[i])], seg_id=cs[i])
        if not ctx.feasible():
            raise PathAbort()
    ctx.input("positions", cp)
    try:
        if via_builder:
            b = object.__new__(_Builder)
            b.ndim = 3 if with_pos else 2
            b.in_memory_geff = {"node_ids": np.array(cn), "node_props": {
                "seg_id": {"values": np.array(cs), "missing": None},
                "time": {"values": np.array(ct), "missing": None}}}
            import funtracks.import_export._validation as va

            old, old_has = tb.load_segmentation, va.has_seg_ids_at_coords
            tb.load_segmentation = lambda s: s  # the array is already in memory (no dask wrapping of a model)
            va.has_seg_ids_at_coords = _has_seg_ids_at_coords
            try:
                out, scale = b.handle_segmentation(g, seg, None)
            finally:
                tb.load_segmentation, va.has_seg_ids_at_coords = old, old_has
            ctx.tag("shortcut" if identity else "relabelled")
        else:
            out = relabel_segmentation(seg, g, np.array(cn), np.array(cs), np.array(ct))
            ctx.tag("relabelled")
    except Unsupported:
        raise
    except Exception as e:
        reraise_model_gap(e)
        ctx.tag(f"raised:{type(e).__name__}")
        ctx.oblige("C13.returns_without_error", False, "C13")
        return
    if isinstance(out, np.ndarray):
        from sx.arr import _as_sarr

        out = _as_sarr(out)
    shift = 1 if 0 in cn else 0
    if via_builder and identity:
        shift = 0
    ctx.tag("shifted" if shift else "unshifted")
    ctx.oblige("C13.graph_ids_shift_with_array", sorted(g.nodes) == sorted(c + shift for c in cn), "C13")
    obl = []
    outc = out.c.reshape(T, P)
    for t in range(T):
        for p in range(P):
            want = z3.IntVal(0)
            for i in range(n):
                if ct[i] == t:
                    want = If(inp[t, p] == cs[i], z3.IntVal(cn[i] + shift), want)
            obl.append(outc[t, p] == want)
    ctx.oblige("C13.pixel_exact", And(obl), "C13")
    ctx.oblige("C13.input_untouched", all(z3.eq(a, b) for a, b in zip(seg.c.flat, inp.flat)) or out is seg, "C13")
    ctx.oblige("C13.shape_kept", tuple(out.c.shape) == tuple(seg.c.shape), "C13")


def _has_seg_ids_at_coords(segmentation, coords, seg_ids, scale=None):
    """contract stub of geff.validate.segmentation.has_seg_ids_at_coords (its np.asanyarray would realise the
    symbolic array): true iff the cell at every scaled coordinate holds the given seg id"""
    if scale is None:
        scale = [1.0] * segmentation.ndim
    for coord, seg_id in zip(coords, seg_ids):
        idx = tuple(int(c * s) for c, s in zip(coord, scale))
        if any(not (0 <= k < d) for k, d in zip(idx, segmentation.shape)):
            return False, ["out of bounds"]
        if segmentation[idx] != seg_id:
            return False, []
    return True, []


class _Builder(tb.TracksBuilder):
    def read_header(self, *a, **k):
        pass

    def load_source(self, *a, **k):
        pass


def replay(f):
    inp = f["inputs"]
    cn, cs, ct = inp["node_ids"], inp["seg_ids"], inp["times"]
    arr = np.array(inp["cells"], dtype=np.dtype(inp.get("dtype", "int64")))
    before = arr.copy()
    g = nx.DiGraph()
    g.add_nodes_from(cn)
    if inp.get("positions"):
        arr = arr.reshape(arr.shape[0], 1, arr.shape[1])
        before = arr.copy()
        for i in range(len(cn)):
            g.nodes[cn[i]].update(time=ct[i], pos=[0.0, float(inp["positions"][i])], seg_id=cs[i])
    try:
        if inp["via_builder"]:
            b = object.__new__(_Builder)
            b.ndim = 3 if inp.get("positions") else 2
            b.in_memory_geff = {"node_ids": np.array(cn), "node_props": {
                "seg_id": {"values": np.array(cs), "missing": None},
                "time": {"values": np.array(ct), "missing": None}}}
            out, _ = b.handle_segmentation(g, arr, None)
            out = np.asarray(out)
        else:
            out = relabel_segmentation(arr, g, np.array(cn), np.array(cs), np.array(ct))
    except Exception as e:
        reraise_model_gap(e)
        return f["obligation"] == "C13.returns_without_error", f"nodes={cn} seg_ids={cs} times={ct} raised {type(e).__name__}: {e}"
    shift = 1 if 0 in cn else 0
    if sorted(g.nodes) != sorted(c + shift for c in cn):
        # graph was not shifted: then the array must not be shifted either
        shift_g = 0
    else:
        shift_g = shift
    detail = f"nodes={cn} seg_ids={cs} times={ct} in={before.tolist()} out={out.tolist()} graph={sorted(g.nodes)}"
    ob = f["obligation"]
    if ob == "C13.input_untouched":
        return (not np.array_equal(arr, before)), detail
    if ob == "C13.shape_kept":
        return out.shape != before.shape, detail
    if inp.get("positions"):
        out, before = out.reshape(out.shape[0], -1), before.reshape(before.shape[0], -1)
    if ob == "C13.graph_ids_shift_with_array":
        want_shift = 0 if (inp["via_builder"] and cn == cs) else shift
        return sorted(g.nodes) != sorted(c + want_shift for c in cn), detail
    if ob == "C13.pixel_exact":
        use = 0 if (inp["via_builder"] and cn == cs) else shift
        want = np.zeros(before.shape, dtype=np.int64)
        for i in range(len(cn)):
            want[ct[i]][before[ct[i]] == cs[i]] = cn[i] + use
        return (not np.array_equal(np.asarray(out, dtype=np.int64), want)), detail + f" want={want.tolist()}"
    return False, "no oracle"
