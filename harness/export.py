"""C15 / C16: exporters and read-only operations on a symbolic tracks object.

Real code executed: filter_graph_with_ancestors (networkx's own `ancestors` walks the graph
model through duck typing), export_to_geff incl. split_position_attr and the chunk-wise
np.isin/np.where masking loop, export_to_csv row construction, save_tracks, the public queries.
I/O boundary stubs capture their arguments: what is captured IS the observable.
"""
from __future__ import annotations

import pathlib
import types

import networkx as nx
import numpy as np
import z3

from sx import inv as I
from sx.arr import SArr, lift
from sx.graph import SymDiGraph
from sx.maps import LazyIdMap
from sx.rt import And, If, Implies, Not, Or, SBool, SInt, Unsupported, int_shim, zb

from harness import step as S
from harness.step import CUS, LID, POS, T as TK, TID, Snap, _Hist

import funtracks.data_model.tracks as _tracks_mod

_tracks_mod.int = int_shim
import funtracks.import_export.csv._export as cx  # noqa: E402
import funtracks.import_export.geff._export as gx  # noqa: E402
import funtracks.import_export.internal_format as ifmt  # noqa: E402
from funtracks.data_model import SolutionTracks  # noqa: E402

CAP = {}


class _FakeZarr:
    def __init__(self, shape, dtype):
        # zarr.open_array creates the array with fill value 0: cells the exporter never writes read back as background
        self.arr = SArr.const(shape, 0, dtype)

    def __setitem__(self, key, value):
        self.arr[key] = value


class _Col:
    def __init__(self, vals):
        self.vals = vals

    def max(self):
        m = self.vals[0]
        for v in self.vals[1:]:
            if v > m:
                m = v
        return m

    def __array__(self, dtype=None, copy=None):
        return np.array([int(v) for v in self.vals], dtype=dtype)


class _FakeDF:
    def __init__(self, rows, columns=None):
        self.rows = list(rows)
        CAP.setdefault("frames", []).append(self)

    def __getitem__(self, k):
        if isinstance(k, list):
            if not self.rows:
                raise KeyError(f"None of {k} are in the [columns]")  # pandas on a frame built from no rows
            for r in self.rows:
                for c in k:
                    if c not in r:
                        raise KeyError(c)
            CAP["header"] = list(k)
            return self
        return _Col([r[k] for r in self.rows])

    def to_csv(self, outfile, index=False):
        CAP["csv_rows"] = self.rows


def _install():
    saved = dict(szg=gx.setup_zarr_group, sza=gx.setup_zarr_array, geff=gx.geff, pd=cx.pd, tif=cx.tifffile,
                 ma=cx.map_array, open=getattr(ifmt, "open", None), json=ifmt.json, np=ifmt.np, nx=ifmt.nx)
    gx.setup_zarr_group = lambda *a, **k: CAP.setdefault("group", (a, k))

    def fake_array(path, zarr_format, shape, dtype, chunks):
        z = _FakeZarr(shape, dtype)
        CAP["zarr"] = z
        return z

    gx.setup_zarr_array = fake_array
    gx.geff = types.SimpleNamespace(write=lambda **kw: CAP.update(write=kw))
    cx.pd = types.SimpleNamespace(DataFrame=_FakeDF, merge=lambda *a, **k: (_ for _ in ()).throw(
        Unsupported("pd.merge")))
    cx.tifffile = types.SimpleNamespace(imwrite=lambda path, arr, **k: CAP.update(tif=arr))
    cx.map_array = lambda seg, inp, out: CAP.update(map_array=(seg, np.asarray(inp), np.asarray(out))) or "MAPPED"

    class _F:
        def __enter__(self):
            return self

        def __exit__(self, *a):
            return False

    ifmt.open = lambda *a, **k: _F()
    ifmt.json = types.SimpleNamespace(dump=lambda data, f: CAP.setdefault("json", []).append(data))
    ifmt.np = types.SimpleNamespace(save=lambda path, arr: CAP.update(npsave=arr), ndarray=np.ndarray,
                                    integer=np.integer, floating=np.floating)
    return saved


def _restore(saved):
    gx.setup_zarr_group, gx.setup_zarr_array, gx.geff = saved["szg"], saved["sza"], saved["geff"]
    cx.pd, cx.tifffile, cx.map_array = saved["pd"], saved["tif"], saved["ma"]
    if saved["open"] is None:
        del ifmt.open
    else:
        ifmt.open = saved["open"]
    ifmt.json, ifmt.np = saved["json"], saved["np"]


class _Dir:
    """stand-in for a pathlib.Path that never touches the file system"""

    def __init__(self, p="/nonexistent/out"):
        self.p = p

    def __truediv__(self, o):
        return _Dir(self.p + "/" + str(o))

    def mkdir(self, **k):
        CAP["mkdir"] = self.p

    def resolve(self, strict=False):
        return self

    def expanduser(self):
        return self

    def __fspath__(self):
        return self.p

    def __str__(self):
        return self.p


class Pre:
    pass


def build(ctx, cfg):
    N = cfg["N"]
    ctx.allow_realise = cfg.get("max_label") is not None
    with_seg = cfg.get("seg", True)
    shape = tuple(cfg.get("shape", (3, 1, 1)))
    ids = list(range(1, N + 1))
    g = SymDiGraph(ids, fresh=False, sym_order=False)
    p = Pre()
    p.N, p.ids, p.g = N, ids, g
    p.alive0 = [z3.Bool(f"alive{i}") for i in ids]
    p.adj0 = [[(z3.Bool(f"adj{i}_{j}") if i != j else z3.BoolVal(False)) for j in ids] for i in ids]
    p.t0 = [z3.Int(f"t{i}") for i in ids]
    p.tid0 = [z3.Int(f"tid{i}") for i in ids]
    p.lid0 = [z3.Int(f"lid{i}") for i in ids]
    multi_pos = cfg.get("multi_pos", False)
    for s in range(N):
        g.alive[s] = p.alive0[s]
        for t in range(N):
            g.E[s][t] = p.adj0[s][t] if s != t else False
        d = {TK: SInt(p.t0[s]), TID: SInt(p.tid0[s]), LID: SInt(p.lid0[s])}
        if cfg.get("sym_pos"):
            # symbolic coordinates (round-trip runs follow the values through export and import)
            from sx.rt import SReal

            p.pos0 = getattr(p, "pos0", {})
            p.pos0[s] = [z3.Real(f"pos{ids[s]}_{a}") for a in range(len(shape) - 1)]
            if cfg.get("int_first_axis"):
                # the first coordinate is a whole number stored as a Python int (a plane index): the exported
                # columns then have different dtypes
                p.pos0[s][0] = z3.Int(f"pos{ids[s]}_0")
            wrap = [(SInt(e) if z3.is_int(e) else SReal(e)) for e in p.pos0[s]]
            if multi_pos:
                d["y"], d["x"] = wrap[0], wrap[1]
            else:
                d[POS] = list(wrap)
        elif multi_pos:
            d["y"], d["x"] = float(s), float(2 * s)
        elif len(shape) == 4:
            d[POS] = [float(s), float(2 * s), float(3 * s)]  # 3D+t
        else:
            d[POS] = [float(s), float(2 * s)]
        if with_seg:
            d["area"] = float(s + 1)
        if cfg.get("custom"):
            # a registered custom node feature with arbitrary integer values (a loaded, never recomputed feature)
            p.cus0 = getattr(p, "cus0", {})
            p.cus0[s] = z3.Int(f"cus{ids[s]}")
            d[CUS] = SInt(p.cus0[s])
        g.nattr[s] = d
    sh = I.Shape(g)
    p.sh0 = sh
    pre = dict(I.forest(sh))
    pre["forward"] = I.forward(sh, p.t0)
    n_frames = shape[0] if with_seg else max(shape[0], N)
    pre["times"] = And([And(0 <= p.t0[i], p.t0[i] < n_frames) for i in range(N)])
    pre["tids"] = And([And(1 <= p.tid0[i], p.tid0[i] <= N + 1) for i in range(N)])
    if cfg.get("bound_lids"):
        pre["lids"] = And([And(1 <= p.lid0[i], p.lid0[i] <= N + 1) for i in range(N)])
    # the ids are those of a valid solution (Inv items 2 and 3, local form): the real constructor keeps valid ids
    # and recomputes invalid ones, so only valid models replay faithfully
    pre["tracklets"] = I.partition_local(sh, p.tid0, lambda a, b: sh.outdeg[a] == 1)
    pre["lineages"] = I.partition_local(sh, p.lid0, lambda a, b: True)
    ctx.assume(And(list(pre.values())))
    seg = None
    if with_seg:
        seg_dt = np.dtype(cfg.get("seg_dtype", "int64"))
        seg = SArr.fresh("seg", shape, seg_dt)
        p.seg0 = seg.c.copy()
        for x in p.seg0.flat:
            ctx.add(x >= 0)
            if seg_dt.itemsize < 8:
                ctx.add(x <= int(np.iinfo(seg_dt).max))
            if cfg.get("max_label") is not None:
                ctx.add(x <= cfg["max_label"])  # bounded run: unmodelled numpy calls are followed by realisation
        # (Inv item 5, the half an exporter may rely on) a node's label occurs in the node's own frame only; labels
        # that belong to no node stay arbitrary
        for idx in np.ndindex(*shape):
            for i in range(N):
                ctx.add(z3.Implies(z3.And(p.seg0[idx] == ids[i], p.alive0[i]), p.t0[i] == idx[0]))
    scale_none = cfg.get("scale", "none") == "none"
    scale = None if scale_none else [1.0, 2.0, 3.0, 4.0][:len(shape)]
    tr = SolutionTracks(nx.DiGraph(), segmentation=None if seg is None else np.zeros(shape, dtype=np.int64),
                        ndim=len(shape), time_attr=TK, tracklet_attr=TID, lineage_attr=LID,
                        pos_attr=["y", "x"] if multi_pos and seg is None else None, scale=scale)
    if multi_pos and seg is not None:
        raise AssertionError("per-axis position only without segmentation")
    if cfg.get("custom"):
        tr.features[CUS] = {"feature_type": "node", "value_type": "int", "num_values": 1, "required": False,
                            "default_value": None, "display_name": "Custom Score"}
    tr.graph = g
    tr.segmentation = seg
    p.scale0 = None if scale is None else list(scale)
    ta = tr.track_annotator
    ta.tracklet_id_to_nodes = LazyIdMap(ids, p.alive0, p.tid0)
    ta.lineage_id_to_nodes = LazyIdMap(ids, p.alive0, p.lid0)
    p.hist_u, p.hist_r = [_Hist("U1")], []
    tr.action_history.undo_stack = list(p.hist_u)
    p.emitted = []
    tr.refresh.connect(lambda *a: p.emitted.append(a))
    p.tr, p.ta, p.seg = tr, ta, seg
    ctx.input("N", N)
    ctx.input("alive", p.alive0)
    ctx.input("adj", p.adj0)
    ctx.input("t", p.t0)
    ctx.input("tid", p.tid0)
    ctx.input("lid", p.lid0)
    ctx.input("shape", list(shape))
    ctx.input("seg_dtype", cfg.get("seg_dtype", "int64"))
    ctx.input("seg", None if seg is None else [p.seg0[idx] for idx in np.ndindex(*shape)])
    ctx.input("scale", p.scale0)
    ctx.input("multi_pos", multi_pos)
    ctx.input("cus", None if not cfg.get("custom") else {str(k): v for k, v in p.cus0.items()})
    return p


def ancestors_closure(sh):
    n = sh.n
    anc = [[sh.A[i][j] for j in range(n)] for i in range(n)]  # anc[i][j]: i is an ancestor of j
    for k in range(n):
        anc = [[Or(anc[i][j], And(anc[i][k], anc[k][j])) for j in range(n)] for i in range(n)]
    return anc


def unchanged(ctx, p, S0, k, prop="C16"):
    S1 = Snap(p, k)
    tr = p.tr
    ctx.oblige("C16.graph_unchanged", S.same_graph(S0, S1), prop)
    ctx.oblige("C16.attrs_unchanged", And(S.same_attrs(S0, S1), _raw_attrs_same(p)), prop)
    ctx.oblige("C16.lookups_unchanged", S.same_lookups(S0, S1), prop)
    ctx.oblige("C16.history_unchanged", S.same_history(S0, S1) and len(p.emitted) == 0, prop)
    ctx.oblige("C16.registry_unchanged", S0.feature_keys == S1.feature_keys and S0.counter == S1.counter
               and p.fd0 == _fd(tr), prop)
    ctx.oblige("C16.scale_unchanged", (tr.scale is None and p.scale0 is None)
               or (tr.scale is not None and p.scale0 is not None and list(tr.scale) == p.scale0), prop)
    if p.seg is not None:
        ctx.oblige("C16.segmentation_unchanged",
                   tr.segmentation is p.seg and all(z3.eq(a, b) for a, b in zip(p.seg.c.flat, p.seg0.flat)), prop)


def _fd(tr):
    """deep observation of the feature registry (the Feature dicts inside it are mutable too)"""
    import copy

    f = tr.features
    return (copy.deepcopy({k: dict(v) for k, v in f.items()}), f.time_key, str(f.position_key), f.tracklet_key,
            f.lineage_key)


def _raw_attrs_same(p):
    """all attribute dict entries (registered or not) of alive nodes are the same objects/values"""
    cs = []
    for s in range(p.N):
        now = p.g.nattr[s]
        was = p.raw0[s]
        same = set(now) == set(was) and all(now[k] is was[k] or now[k] == was[k] for k in was
                                            if not isinstance(was[k], (SInt,)))
        same = same and all(z3.eq(now[k].e, was[k].e) for k in was if isinstance(was[k], SInt) and k in now)
        cs.append(Implies(p.sh0.al[s], z3.BoolVal(bool(same))))
    return And(cs)


def harness(ctx, cfg):
    saved = _install()
    CAP.clear()
    try:
        _harness(ctx, cfg)
    finally:
        _restore(saved)
        CAP.clear()


def _harness(ctx, cfg):
    p = build(ctx, cfg)
    tr, g = p.tr, p.g
    op = cfg["op"]
    k = z3.Int("k_fresh")
    p.raw0 = [dict(d) for d in g.nattr]
    p.fd0 = _fd(tr)
    S0 = Snap(p, k)
    sh = p.sh0
    n = p.N
    use_sel = cfg.get("select", True)
    sel = None
    if use_sel:
        # an arbitrary subset of the node ids (members need not be alive for csv; geff: alive nodes)
        sel = set()
        for i in range(n):
            if ctx.decide(And(sh.al[i], z3.Bool(f"sel{i}"))):
                sel.add(p.ids[i])
    ctx.input("op", op)
    ctx.input("select", None if sel is None else sorted(sel))
    ctx.input("cfg", {kk: vv for kk, vv in cfg.items() if kk in ("display_names", "export_seg")})
    anc = ancestors_closure(sh)
    if n >= 3:
        ctx.witness("chain_of_three", Or([And(sh.A[a][b], sh.A[b][c]) for a in range(n) for b in range(n)
                                          for c in range(n) if len({a, b, c}) == 3]))
    if sel is None:
        keep = [sh.al[i] for i in range(n)]
    else:
        keep = [And(sh.al[i], Or([z3.BoolVal(p.ids[i] in sel)] + [And(anc[i][j], z3.BoolVal(p.ids[j] in sel))
                                                                for j in range(n)])) for i in range(n)]
    if op == "geff":
        gx.export_to_geff(tr, _Dir(), node_ids=sel)
        ctx.tag("exported")
        G = CAP["write"]["graph"]
        ctx.oblige("C15.nodes_exact", And([z3.BoolVal(p.ids[i] in G.nodes) == keep[i] for i in range(n)]), "C15")
        ctx.oblige("C15.edges_exact", And([z3.BoolVal(G.has_edge(p.ids[i], p.ids[j]))
                                           == And(sh.A[i][j], keep[i], keep[j])
                                           for i in range(n) for j in range(n) if i != j]), "C15")
        ctx.oblige("C15.no_missing_parent",
                   all(all(q in G.nodes for q in g.predecessors(m)) for m in G.nodes), "C15")
        if p.seg is not None:
            out = CAP["zarr"].arr
            cs = []
            for idx in np.ndindex(*p.seg.c.shape):
                kept_label = Or([And(p.seg0[idx] == p.ids[i], keep[i]) for i in range(n)]) if sel is not None \
                    else z3.BoolVal(True)
                cs.append(out.c[idx] == If(kept_label, p.seg0[idx], z3.IntVal(0)))
            ctx.oblige("C15.segmentation_masks_exact", And(cs), "C15")
    elif op == "csv":
        try:
            cx.export_to_csv(tr, "/nonexistent/out.csv", node_ids=sel,
                             use_display_names=cfg.get("display_names", False),
                             export_seg=cfg.get("export_seg", False), seg_path="/nonexistent/seg.tif")
        except KeyError:
            # pandas cannot select the header columns of a frame built from no rows: exporting nothing
            # raises in the real exporter as well (replay confirms); the tracks must still be unchanged
            if CAP.get("frames") and not CAP["frames"][-1].rows:
                ctx.tag("empty_export_raises")
                unchanged(ctx, p, S0, k)
                return
            raise
        ctx.tag("exported")
        rows = CAP["csv_rows"]
        idcol = "ID" if cfg.get("display_names") else "id"
        parcol = "Parent ID" if cfg.get("display_names") else "parent_id"
        got = [r[idcol] for r in rows]
        ctx.oblige("C15.nodes_exact", And([z3.BoolVal(got.count(p.ids[i]) == 1) == keep[i] for i in range(n)]
                                          + [z3.BoolVal(all(x in p.ids for x in got))]), "C15")
        cs = []
        for r in rows:
            i = p.ids.index(r[idcol])
            par = r[parcol]
            if par == "":
                cs.append(Not(Or([sh.A[q][i] for q in range(n)])))
            else:
                cs.append(And(sh.A[p.ids.index(par)][i], z3.BoolVal(par in got)))
        ctx.oblige("C15.no_missing_parent", And(cs), "C15")
        if cfg.get("export_seg"):
            seg_arg, in_vals, out_vals = CAP["map_array"]
            ok = seg_arg is p.seg and CAP.get("tif") == "MAPPED"
            # contract of skimage.util.map_array: a cell whose label is in_vals[k] becomes out_vals[k], every other
            # cell 0.  Required: the mask of an exported node carries its track id, everything else is background.
            iv, ov = [int(x) for x in in_vals], [int(x) for x in out_vals]
            cs = [z3.BoolVal(bool(ok) and len(iv) == len(ov))]
            for idx in np.ndindex(*p.seg.c.shape):
                cell = p.seg0[idx]
                mapped = z3.IntVal(0)
                for a, b in zip(iv, ov):
                    mapped = If(cell == a, z3.IntVal(b), mapped)
                want = z3.IntVal(0)
                for i in range(n):
                    want = If(And(cell == p.ids[i], keep[i]), p.tid0[i], want)
                cs.append(mapped == want)
            ctx.oblige("C15.segmentation_masks_exact", And(cs), "C15")
    elif op == "save":
        import warnings

        with warnings.catch_warnings():
            warnings.simplefilter("ignore")
            if ctx.choose(2, "save_entry_point") == 0:
                ifmt.save_tracks(tr, _Dir())
            else:
                tr.save(_Dir())  # deprecated method wrapper
        ctx.tag("exported")
    elif op == "queries":
        run_queries(ctx, p)
        ctx.tag("exported")
    else:
        raise AssertionError(op)
    unchanged(ctx, p, S0, k)


def run_queries(ctx, p):
    """every public read-only operation of Tracks / SolutionTracks, with symbolic arguments"""
    tr = p.tr
    grp = ctx.choose(3, "query_group")
    qk, qt = z3.Int("q_track"), z3.Int("q_time")
    if grp == 0:
        tr.nodes()
        tr.edges()
        tr.in_degree()
        tr.out_degree()
        tr.get_available_features()
        tr.get_next_track_id()
        tr.get_next_lineage_id()
        _ = tr.max_track_id
        _ = tr.track_id_to_node
        import warnings

        with warnings.catch_warnings():  # deprecated accessors are still public queries
            warnings.simplefilter("ignore")
            _ = tr.time_attr
            _ = tr.pos_attr
            _ = tr.node_id_to_track_id
        return
    if grp == 1:
        tr.get_track_neighbors(SInt(qk), SInt(qt))
        tr.has_track_id_at_time(SInt(qk), SInt(qt))
        return
    n_i = ctx.choose(p.N, "query_node")
    node = p.ids[n_i]
    if not ctx.decide(p.sh0.al[n_i]):
        return
    tr.predecessors(node)
    tr.successors(node)
    tr.get_time(node)
    tr.get_times([node])
    tr.get_positions([node])
    tr.get_position(node)
    tr.get_positions([node], incl_time=True)
    tr.get_position(node, incl_time=True)
    tr.get_node_attr(node, TID)
    tr.get_nodes_attr([node], TK)
    tr.get_track_id(node)
    tr.get_lineage_id(node)
    tr.get_pixels(node)
    tr.in_degree(np.array([node]))
    tr.out_degree(np.array([node]))
    import warnings

    with warnings.catch_warnings():
        warnings.simplefilter("ignore")
        tr.get_area(node)
        tr.get_areas([node])
        for e in tr.graph.out_edges(node):
            tr.get_edge_attr(e, "iou")
            tr.get_edges_attr([e], "iou")
            tr.get_iou(e)
            tr.get_ious([e])
