"""C19: label utilities on symbolic label arrays (real code: funtracks.utils._segmentation_utils)."""
from __future__ import annotations

import itertools

import networkx as nx
import numpy as np
import z3

from sx import inv as I
from sx.arr import SArr
from sx.graph import SymDiGraph
from sx.rt import reraise_model_gap  # noqa: F401
from sx.rt import And, Implies, Not, Or, SInt, Unsupported, int_shim, zb

import funtracks.utils._segmentation_utils as su

su.int = int_shim


# ------------------------------------------------------------------ ensure_unique_labels
def unique_harness(ctx, cfg):
    shape = tuple(cfg["shape"])
    ctx.allow_realise = cfg.get("max_label") is not None
    multiseg = cfg.get("multiseg", False)
    dt = np.dtype(cfg.get("dtype", "int32"))
    layout = cfg.get("layout")
    if layout == "moveaxis01":
        # the caller's array is a transposed VIEW (e.g. np.moveaxis of a time-major stack): not C-contiguous
        a = SArr(np.moveaxis(SArr.fresh("s", (shape[1], shape[0]) + shape[2:], dt).c, 0, 1), dt)
    elif layout == "F":
        a = SArr(np.asfortranarray(SArr.fresh("s", shape, dt).c), dt)
    else:
        a = SArr.fresh("s", shape, dt)
    assert a.c.shape == shape
    inp = a.c.copy()
    for x in inp.flat:
        ctx.add(x >= 0)
        ctx.add(x <= int(np.iinfo(dt).max))  # a cell holds a value of its dtype
        if cfg.get("max_label") is not None:
            ctx.add(x <= cfg["max_label"])  # bounded run: unmodelled numpy calls are followed by realisation
    ctx.input("cells", [inp[idx] for idx in np.ndindex(*shape)])
    ctx.input("shape", list(shape))
    ctx.input("multiseg", multiseg)
    ctx.input("dtype", dt.name)
    ctx.input("layout", layout)
    ctx.env.update(cells=inp)
    try:
        out = su.ensure_unique_labels(a, multiseg=multiseg)
    except Unsupported:
        raise
    except Exception as e:
        reraise_model_gap(e)
        ctx.tag(f"raised:{type(e).__name__}")
        ctx.oblige("C19.returns_without_error", False, "C19")
        return
    if isinstance(out, np.ndarray):
        from sx.arr import _as_sarr

        out = _as_sarr(out)
    o = out.c
    ctx.tag("returned")
    nfr = 2 if multiseg else 1  # number of leading axes that index a frame/hypothesis
    same_frame, cross, zero = [], [], []
    idxs = list(np.ndindex(*shape))
    for i in idxs:
        zero.append((o[i] == 0) == (inp[i] == 0))
    for i, j in itertools.combinations(idxs, 2):
        if i[:nfr] == j[:nfr]:
            same_frame.append((o[i] == o[j]) == (inp[i] == inp[j]))
        else:
            cross.append(Implies(And(o[i] != 0, o[j] != 0), o[i] != o[j]))
    ctx.oblige("C19.unique_across_frames", And(cross), "C19")
    ctx.oblige("C19.partition_kept", And(same_frame), "C19")
    ctx.oblige("C19.background_kept", And(zero), "C19")
    ctx.oblige("C19.input_untouched", all(z3.eq(a.c[i], inp[i]) for i in idxs), "C19")
    ctx.witness("two_frames_labelled", And(inp[idxs[0]] != 0, inp[idxs[-1]] != 0))


def unique_replay(f):
    inp = f["inputs"]
    shape = tuple(inp["shape"])
    arr = np.array(inp["cells"], dtype=np.dtype(inp.get("dtype", "int64"))).reshape(shape)
    if inp.get("layout") == "moveaxis01":
        arr = np.moveaxis(np.ascontiguousarray(np.moveaxis(arr, 1, 0)), 0, 1)
    elif inp.get("layout") == "F":
        arr = np.asfortranarray(arr)
    before = arr.copy()
    try:
        out = su_real().ensure_unique_labels(arr, multiseg=inp["multiseg"])
    except Exception as e:
        reraise_model_gap(e)
        return f["obligation"] == "C19.returns_without_error", f"in={before.tolist()} raised {type(e).__name__}: {e}"
    nfr = 2 if inp["multiseg"] else 1
    ob = f["obligation"]
    idxs = list(np.ndindex(*shape))
    detail = f"in={before.tolist()} out={out.tolist()}"
    if ob == "C19.input_untouched":
        return (not np.array_equal(arr, before)), detail
    if ob == "C19.background_kept":
        return bool(np.any((out == 0) != (before == 0))), detail
    for i, j in itertools.combinations(idxs, 2):
        if i[:nfr] == j[:nfr]:
            if ob == "C19.partition_kept" and (out[i] == out[j]) != (before[i] == before[j]):
                return True, detail
        elif ob == "C19.unique_across_frames" and out[i] != 0 and out[i] == out[j]:
            return True, detail + f" label {out[i]} in frames {i[:nfr]} and {j[:nfr]}"
    return False, detail


def su_real():
    import funtracks.utils._segmentation_utils as m

    return m


# ------------------------------------------------------------------ relabel_segmentation_with_track_id
def bytrack_harness(ctx, cfg):
    N, T, P = cfg["N"], cfg["T"], cfg["P"]
    ctx.allow_realise = cfg.get("max_label") is not None
    g = SymDiGraph(list(range(1, N + 1)), tag="g")
    for s in range(N):
        g.E[s][s] = False
    tm = [z3.Int(f"t{i}") for i in g.ids]
    sid = [z3.Int(f"sid{i}") for i in g.ids]
    sh = I.Shape(g)
    pre = list(I.forest(sh).values()) + [I.forward(sh, tm)]
    pre += [And(0 <= tm[i], tm[i] < T, sid[i] >= 1) for i in range(N)]
    # detections are distinct (time, seg id) pairs
    pre += [Implies(And(sh.al[i], sh.al[j]), Or(tm[i] != tm[j], sid[i] != sid[j]))
            for i in range(N) for j in range(i + 1, N)]
    ctx.assume(And(pre))
    for s in range(N):
        g.nattr[s] = {"time": SInt(tm[s]), "seg_id": SInt(sid[s])}
    seg = SArr.fresh("c", (T, P), np.int64)
    inp = seg.c.copy()
    for x in inp.flat:
        ctx.add(x >= 0)
        if cfg.get("max_label") is not None:
            ctx.add(x <= cfg["max_label"])
    if cfg.get("max_label") is not None:
        ctx.add(And([sid[i] <= cfg["max_label"] for i in range(N)]))
    ctx.input("N", N)
    ctx.input("alive", list(sh.al))
    ctx.input("adj", [list(r) for r in sh.A])
    ctx.input("t", tm)
    ctx.input("sid", sid)
    ctx.input("cells", [[inp[t, p] for p in range(P)] for t in range(T)])
    real = g.realise()
    sh1 = I.Shape(g)  # shape is concrete now
    try:
        out = su.relabel_segmentation_with_track_id(real, seg)
    except Unsupported:
        raise
    except Exception as e:
        reraise_model_gap(e)
        ctx.tag(f"raised:{type(e).__name__}")
        ctx.oblige("C19.returns_without_error", False, "C19")
        return
    ctx.tag("returned")
    if isinstance(out, np.ndarray):
        from sx.arr import _as_sarr

        out = _as_sarr(out)
    o = out.c
    segrel = sh1.seg()
    cells = [(t, p) for t in range(T) for p in range(P)]

    def node_of(c, i):
        return And(sh1.al[i], tm[i] == c[0], sid[i] == inp[c])

    removed, same = [], []
    for c in cells:
        removed.append((o[c] == 0) == Not(Or([node_of(c, i) for i in range(N)])))
    for c, d in itertools.combinations(cells, 2):
        for i in range(N):
            for j in range(N):
                same.append(Implies(And(node_of(c, i), node_of(d, j)), (o[c] == o[d]) == segrel[i][j]))
    ctx.oblige("C19.bytrack_removes_unlisted", And(removed), "C19")
    ctx.oblige("C19.bytrack_same_label_iff_same_segment", And(same), "C19")
    ctx.oblige("C19.bytrack_input_untouched", all(z3.eq(seg.c[c], inp[c]) for c in cells), "C19")
    ctx.witness("division_present", Or([sh1.outdeg[i] == 2 for i in range(N)]))


def bytrack_replay(f):
    inp = f["inputs"]
    N = inp["N"]
    g = nx.DiGraph()
    for i in range(N):
        if inp["alive"][i]:
            g.add_node(i + 1, time=inp["t"][i], seg_id=inp["sid"][i])
    for i in range(N):
        for j in range(N):
            if inp["adj"][i][j]:
                g.add_edge(i + 1, j + 1)
    arr = np.array(inp["cells"], dtype=np.int64)
    before = arr.copy()
    try:
        out = su_real().relabel_segmentation_with_track_id(g, arr)
    except Exception as e:
        reraise_model_gap(e)
        return f["obligation"] == "C19.returns_without_error", f"in={before.tolist()} raised {type(e).__name__}: {e}"
    detail = f"nodes={dict(g.nodes(data=True))} edges={list(g.edges())} in={before.tolist()} out={out.tolist()}"
    ob = f["obligation"]
    if ob == "C19.bytrack_input_untouched":
        return (not np.array_equal(arr, before)), detail
    from harness.step_replay import tracklet_components

    comp = {}
    for ci, c in enumerate(tracklet_components(g)):
        for n in c:
            comp[n] = ci
    node_at = {}
    for n, d in g.nodes(data=True):
        node_at[(d["time"], d["seg_id"])] = n
    T, P = before.shape
    cells = [(t, p) for t in range(T) for p in range(P)]
    owner = {c: node_at.get((c[0], int(before[c]))) for c in cells}
    if ob == "C19.bytrack_removes_unlisted":
        return any((out[c] == 0) != (owner[c] is None) for c in cells), detail
    if ob == "C19.bytrack_same_label_iff_same_segment":
        for c, d in itertools.combinations(cells, 2):
            if owner[c] is not None and owner[d] is not None:
                if (out[c] == out[d]) != (comp[owner[c]] == comp[owner[d]]):
                    return True, detail
        return False, detail
    return False, "no oracle"
