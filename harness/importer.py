"""C12 (builder stage): import of a node table / GEFF store whose CONTENT is symbolic.

What runs is funtracks' own import logic, unmodified:
  GEFF route  import_from_geff -> GeffTracksBuilder.prepare (read_header, infer_node_name_map on the
              concrete property names) -> build: validate_name_map (_preprocess_name_map,
              validate_node_name_map, validate_spatial_dims_in_name_map), load_source /
              import_graph_from_geff (filter, rename through flatten_name_map), _combine_multi_value_props,
              validate (validate_spatial_dims, validate_in_memory_geff with the REAL geff structural
              validators on the concrete id arrays), construct_graph (REAL geff networkx backend),
              SolutionTracks(...) (real constructor on the resulting real nx.DiGraph), enable_features.
  CSV route   tracks_from_df -> CSVTracksBuilder.load_source on a frame model (see _Frame below) -> the same
              build stages.

Symbolic: every cell of the source columns (time, coordinates, custom properties: unconstrained
integers / reals).  Decided by solver forks, bounded: the parent / edge endpoints (each over the
row ids, one id that is no row, and "no parent").  Concrete per run: the row ids (non-contiguous,
unordered, optionally with a duplicate), the column names and the key mapping.

I/O boundary stubs (contract = "returns what the store holds"): geff_spec.GeffMetadata.read (property
names), geff read_to_memory (the requested properties of the symbolic store, everything else dropped).
"""
from __future__ import annotations

import types
import warnings

import networkx as nx
import numpy as np
import z3

from sx.arr import SArr
from sx.rt import reraise_model_gap  # noqa: F401
from sx.rt import And, Implies, Not, Or, SBool, SInt, SReal, Unsupported, cur, int_shim, same_value

import funtracks.data_model.tracks as _tracks_mod

_tracks_mod.int = int_shim
import funtracks.import_export.geff._import as gi  # noqa: E402
import funtracks.import_export._tracks_builder as tb  # noqa: E402

NO_ROW = 99  # an id that is never a row id


class _Meta:
    directed = True

    def __init__(self, node_names, edge_names=()):
        self.node_props_metadata = {k: None for k in node_names}
        self.edge_props_metadata = {k: None for k in edge_names}
        self.track_node_props = None


def _column(name, n, kind):
    if kind == "int":
        cells = np.array([z3.Int(f"{name}_{i}") for i in range(n)], dtype=object)
        return SArr(cells, np.int64)
    cells = np.array([z3.Real(f"{name}_{i}") for i in range(n)], dtype=object)
    return SArr(cells, np.float64)


def _matrix(name, n, d):
    cells = np.array([[z3.Real(f"{name}_{i}_{k}") for k in range(d)] for i in range(n)], dtype=object)
    return SArr(cells, np.float64)


class Store:
    """the symbolic GEFF store: ids, edges and one value array per property"""

    def __init__(self, ctx, cfg):
        self.ids = list(cfg["ids"])
        n = len(self.ids)
        self.cols = {}
        for name, kind in cfg["columns"].items():
            if kind.startswith("vec"):
                self.cols[name] = _matrix(name, n, int(kind[3:]))
            else:
                self.cols[name] = _column(name, n, kind)
        # edges: M rows (u, v), endpoints decided by forks over the row ids and one unknown id
        dom = sorted(set(self.ids)) + [NO_ROW]
        self.edges = []
        for m in range(cfg.get("M", 2)):
            if ctx.choose(2, f"edge{m}_present") == 0:
                continue
            u = dom[ctx.choose(len(dom), f"edge{m}_u")]
            v = dom[ctx.choose(len(dom), f"edge{m}_v")]
            self.edges.append((u, v))
        # sparse properties: a concrete missing-mask per listed column, every mask decided by forks
        self.missing = {}
        for name in cfg.get("sparse", ()):
            self.missing[name] = np.array([ctx.choose(2, f"missing_{name}_{i}") == 1 for i in range(n)], dtype=np.bool_)
        self.edge_cols = {}
        for name, kind in cfg.get("edge_columns", {}).items():
            self.edge_cols[name] = _column("e_" + name, len(self.edges), kind)

    def in_memory(self, node_props, edge_props):
        node_ids = np.array(self.ids, dtype=np.int64)
        edge_ids = np.array(self.edges, dtype=np.int64).reshape(-1, 2)
        np_ = {k: {"values": v.copy(), "missing": None if k not in self.missing else self.missing[k].copy()}
               for k, v in self.cols.items() if node_props is None or k in node_props}
        ep_ = {k: {"values": v.copy(), "missing": None} for k, v in self.edge_cols.items()
               if edge_props is None or k in edge_props}
        return {"metadata": _Meta(self.cols, self.edge_cols), "node_ids": node_ids, "edge_ids": edge_ids,
                "node_props": np_, "edge_props": ep_}


_REAL = {}


def _infer_dtype(arr):
    """infer_dtype_from_array looks at the dtype only (np.asarray(arr).dtype): the symbolic column declares it"""
    if isinstance(arr, SArr):
        return _REAL["infer"](np.empty(0, dtype=arr.dtype))
    return _REAL["infer"](arr)


def install(store):
    import geff_spec

    _REAL.update(read=gi.read_to_memory, meta=geff_spec.GeffMetadata.read, infer=tb.infer_dtype_from_array)
    tb.infer_dtype_from_array = _infer_dtype
    gi.read_to_memory = lambda directory, node_props=None, edge_props=None, **kw: store.in_memory(node_props,
                                                                                                   edge_props)
    geff_spec.GeffMetadata.read = staticmethod(lambda path: _Meta(store.cols, store.edge_cols))


def remove():
    import geff_spec

    gi.read_to_memory = _REAL["read"]
    tb.infer_dtype_from_array = _REAL["infer"]
    geff_spec.GeffMetadata.read = _REAL["meta"]


def malformed(ids, edges):
    why = []
    if len(set(ids)) != len(ids):
        why.append("duplicate ids")
    if any(u not in ids or v not in ids for u, v in edges):
        why.append("link to unknown node")
    if any(u == v for u, v in edges):
        why.append("self link")
    if len(set(edges)) != len(edges):
        why.append("repeated link")
    return why


def geff_harness(ctx, cfg):
    store = Store(ctx, cfg)
    name_map = dict(cfg["name_map"])
    ctx.input("route", "geff")
    ctx.input("ids", store.ids)
    ctx.input("edges", [list(e) for e in store.edges])
    ctx.input("columns", dict(cfg["columns"]))
    ctx.input("name_map", name_map)
    ctx.input("cells", {k: [x for x in v.c.flat] for k, v in store.cols.items()})
    ctx.input("cell_shapes", {k: list(v.c.shape) for k, v in store.cols.items()})
    ctx.input("missing", {k: [bool(b) for b in v] for k, v in store.missing.items()})
    ctx.input("edge_cells", {k: [x for x in v.c.flat] for k, v in store.edge_cols.items()})
    ctx.input("edge_name_map", cfg.get("edge_name_map"))
    ctx.input("node_features", cfg.get("node_features"))
    # recorded BEFORE the call so that a concrete instance of this path is judged by a self-contained oracle
    ctx.input("expect_malformed", bool(malformed(store.ids, store.edges) or cfg.get("expect_missing_required", False)))
    install(store)
    exc = tr = None
    try:
        with warnings.catch_warnings():
            warnings.simplefilter("ignore")
            tr = gi.import_from_geff("store.zarr", node_name_map=dict(name_map),
                                     edge_name_map=None if cfg.get("edge_name_map") is None else dict(
                                         cfg["edge_name_map"]),
                                     node_features=cfg.get("node_features"))
    except Unsupported:
        raise
    except Exception as e:
        reraise_model_gap(e)
        exc = e
    finally:
        remove()
    _oblige(ctx, cfg, store, name_map, tr, exc)


def effective_map(nm):
    """documented legacy form: separate z / y / x entries stand for pos = [z, y, x] (in that order)"""
    nm = dict(nm)
    if "pos" not in nm:
        comps = [nm[k] for k in ("z", "y", "x") if k in nm]
        if len(comps) >= 2:
            for k in ("z", "y", "x"):
                nm.pop(k, None)
            nm["pos"] = comps
    return nm


def _oblige(ctx, cfg, store, name_map, tr, exc):
    name_map = effective_map(name_map)
    bad = malformed(store.ids, store.edges)
    missing_required = cfg.get("expect_missing_required", False)
    if bad or missing_required:
        ctx.tag("malformed" if bad else "missing_required")
        ctx.oblige("C12.malformed_source_rejected_with_ValueError", isinstance(exc, ValueError), "C12")
        return
    ctx.tag("imported")
    ctx.env.update(exc=repr(exc))
    ctx.oblige("C12.wellformed_source_accepted", exc is None, "C12")
    if exc is not None:
        return
    g = tr.graph
    ctx.oblige("C12.nodes_are_the_source_ids", sorted(g.nodes) == sorted(store.ids), "C12")
    ctx.oblige("C12.edges_are_the_source_links", sorted(g.edges) == sorted(store.edges), "C12")
    cs = []
    for std, src in name_map.items():
        for i, n in enumerate(store.ids):
            a = g.nodes[n] if n in g.nodes else {}
            got = a.get(std)
            srcs = src if isinstance(src, list) else [src]
            if any(c in store.missing and store.missing[c][i] for c in srcs):
                # a value the store marks as missing (for a combined property: any component) is absent
                cs.append(z3.BoolVal(std not in a))
                continue
            if isinstance(src, list):
                want = [_cell(store.cols[c], i) for c in src]
                got = list(got) if got is not None else None
            else:
                want = _cell(store.cols[src], i)
                if isinstance(want, list) and got is not None:
                    got = list(got)
            cs.append(same_value(got, want))
    ctx.oblige("C12.mapped_values_equal_source_in_mapped_order", And(cs), "C12")
    if cfg.get("edge_name_map"):
        es = []
        for std, src in cfg["edge_name_map"].items():
            for k, (u, v) in enumerate(store.edges):
                es.append(same_value(g.edges[u, v].get(std) if g.has_edge(u, v) else None, store.edge_cols[src][k]))
        ctx.oblige("C12.edge_values_equal_source", And(es), "C12")
    if cfg.get("node_features"):
        ctx.oblige("C12.loaded_features_registered",
                   all(k in tr.features for k, rec in cfg["node_features"].items() if not rec), "C12")
    ctx.oblige("C12.time_and_position_readable", And([
        And(same_value(tr.get_time(n), _cell(store.cols[name_map["time"]], i)),
            same_value(list(tr.get_position(n)), _pos(store, name_map, i)))
        for i, n in enumerate(store.ids)]), "C12")


def _cell(col, i):
    v = col[i]
    if isinstance(v, SArr):
        return [x for x in v]
    return v


def _pos(store, name_map, i):
    src = name_map.get("pos")
    if src is None:
        src = [name_map[k] for k in ("z", "y", "x") if k in name_map]
    if isinstance(src, list):
        return [_cell(store.cols[c], i) for c in src]
    return _cell(store.cols[src], i)


# ------------------------------------------------------------------ replay on the unmodified stack
def _num(x):
    from fractions import Fraction

    if isinstance(x, list) and len(x) == 2:
        return float(Fraction(x[0], x[1]))
    return x


def _concrete_columns(inp):
    cols = {}
    for name, kind in inp["columns"].items():
        flat = [_num(v) for v in inp["cells"][name]]
        shape = inp["cell_shapes"][name]
        dt = np.int64 if kind == "int" else np.float64
        cols[name] = np.array(flat, dtype=dt).reshape(shape)
    return cols


def _eq(a, b):
    try:
        x, y = np.asarray(a, dtype=float), np.asarray(b, dtype=float)
        # (floating-point rounding of text / array round trips is outside every claim: equal up to 1e-9 relative)
        return x.shape == y.shape and bool(np.allclose(x, y, rtol=1e-9, atol=1e-12, equal_nan=True))
    except Exception:
        return a == b


def geff_replay(f):
    """writes the counterexample as a real GEFF store (geff's own array writer, structure validation off so that
    malformed stores can be written too) and imports it with the real import_from_geff"""
    import shutil
    import tempfile
    from pathlib import Path

    from geff.core_io._base_write import write_arrays
    from geff_spec.utils import create_or_update_metadata

    from funtracks.import_export.geff._import import import_from_geff

    inp, ob = f["inputs"], f["obligation"]
    cols = _concrete_columns(inp)
    ids = list(inp["ids"])
    edges = [tuple(e) for e in inp["edges"]]
    tmp = Path(tempfile.mkdtemp(prefix="verif_import_"))
    try:
        store = tmp / "store.zarr"
        ecols = {k: np.array([_num(v) for v in vs], dtype=np.float64) for k, vs in inp.get("edge_cells", {}).items()}
        write_arrays(store, np.array(ids, dtype=np.int64),
                     {k: {"values": v, "missing": (np.array(inp["missing"][k], dtype=np.bool_)
                                                   if k in inp.get("missing", {}) else None)} for k, v in cols.items()},
                     np.array(edges, dtype=np.int64).reshape(-1, 2),
                     {k: {"values": v, "missing": None} for k, v in ecols.items()},
                     create_or_update_metadata(None, is_directed=True), structure_validation=False)
        exc = tr = None
        try:
            with warnings.catch_warnings():
                warnings.simplefilter("ignore")
                tr = import_from_geff(store, node_name_map=dict(inp["name_map"]),
                                      edge_name_map=inp.get("edge_name_map"),
                                      node_features=inp.get("node_features"))
        except Exception as e:
            reraise_model_gap(e)
            exc = e
        return _judge(inp, ob, cols, ecols, ids, edges, tr, exc)
    finally:
        shutil.rmtree(tmp, ignore_errors=True)


def _judge(inp, ob, cols, ecols, ids, edges, tr, exc):
    detail = f"ids={ids} edges={edges} name_map={inp['name_map']} columns=" \
             f"{ {k: v.tolist() for k, v in cols.items()} } -> exc={exc!r}"
    em = inp.get("expect_malformed")
    if em is not None and em != (ob == "C12.malformed_source_rejected_with_ValueError"):
        return False, "obligation does not apply: the source is " + ("malformed" if em else "well-formed")
    if ob == "C12.malformed_source_rejected_with_ValueError":
        return (not isinstance(exc, ValueError)), detail + (
            f" imported nodes={sorted(tr.graph.nodes)} edges={sorted(tr.graph.edges)}" if tr is not None else "")
    if ob == "C12.wellformed_source_accepted":
        return exc is not None, detail
    if exc is not None:
        return False, detail
    g = tr.graph
    detail += f" nodes={list(g.nodes(data=True))} edges={list(g.edges(data=True))}"
    if ob == "C12.nodes_are_the_source_ids":
        return sorted(g.nodes) != sorted(ids), detail
    if ob == "C12.edges_are_the_source_links":
        return sorted(g.edges) != sorted(edges), detail
    nm = effective_map(inp["name_map"])
    if ob == "C12.mapped_values_equal_source_in_mapped_order":
        for std, src in nm.items():
            for i, n in enumerate(ids):
                got = g.nodes[n].get(std) if n in g.nodes else None
                srcs = src if isinstance(src, list) else [src]
                if any(inp.get("missing", {}).get(c, [False] * len(ids))[i] for c in srcs):
                    if n in g.nodes and std in g.nodes[n]:
                        return True, detail + f" node {n}: {std} present although the store marks it missing"
                    continue
                want = [cols[c][i] for c in src] if isinstance(src, list) else cols[src][i]
                if got is None or not _eq(got, want):
                    return True, detail + f" node {n}: {std}={got!r}, source {src}={np.asarray(want).tolist()}"
        return False, detail
    if ob == "C12.time_and_position_readable":
        src = nm.get("pos") or [nm[k] for k in ("z", "y", "x") if k in nm]
        for i, n in enumerate(ids):
            want = [cols[c][i] for c in src] if isinstance(src, list) else cols[src][i]
            if not _eq(tr.get_time(n), cols[nm["time"]][i]) or not _eq(tr.get_position(n), want):
                return True, detail + f" node {n}: time={tr.get_time(n)} pos={tr.get_position(n)}"
        return False, detail
    if ob == "C12.edge_values_equal_source":
        for std, src in (inp.get("edge_name_map") or {}).items():
            for k, (u, v) in enumerate(edges):
                got = g.edges[u, v].get(std)
                if got is None or not _eq(got, ecols[src][k]):
                    return True, detail + f" edge {(u, v)}: {std}={got!r} source={ecols[src][k]}"
        return False, detail
    if ob == "C12.loaded_features_registered":
        want = [k for k, rec in (inp.get("node_features") or {}).items() if not rec]
        return any(k not in tr.features for k in want), detail + f" registry={sorted(tr.features)}"
    return False, "no oracle for " + ob


# ====================================================================== CSV / DataFrame route
# A node table whose cells are symbolic cannot live in a real pandas DataFrame (pandas converts every
# column to a compiled array).  `_Frame` implements exactly the DataFrame / Series API subset that
# CSVTracksBuilder.load_source and _ensure_integer_ids use, cell-wise, with pandas' documented
# semantics; `./check selftest` runs load_source on concrete tables through real pandas and through the
# model and compares the resulting in-memory GEFF.  Replays use a real pandas.DataFrame.
import funtracks.import_export.csv._import as ci  # noqa: E402


class _NAType:
    def __repr__(self):
        return "NA"

    def __eq__(self, o):
        return False

    def __ne__(self, o):
        return True

    __hash__ = object.__hash__


NA = _NAType()  # a missing cell (NaN / <NA> / None after the NaN -> None conversion: all satisfy pd.isna)


def _isna(x):
    return x is NA or x is None or (isinstance(x, float) and x != x)


class _Cols(list):
    def tolist(self):
        return list(self)


class _Series:
    """cells + ROW LABELS (pandas aligns on labels, not on positions, when a Series is stored into a frame)"""

    def __init__(self, cells, index=None, dtype=None):
        self.cells = list(cells)
        self.index = list(range(len(self.cells))) if index is None else list(index)
        if len(self.index) != len(self.cells):
            raise ValueError("Length of values does not match length of index")

    def __iter__(self):
        return iter(self.cells)

    def __len__(self):
        return len(self.cells)

    def tolist(self):
        return list(self.cells)

    @property
    def is_unique(self):
        return len(set(self.cells)) == len(self.cells)  # (id cells are concrete)

    def unique(self):
        out = []
        for c in self.cells:
            if c not in out:
                out.append(c)
        return out

    def map(self, mapping):
        if callable(mapping):
            return self.apply(mapping)
        return _Series([mapping[c] if (not _isna(c) and c in mapping) else NA for c in self.cells], self.index)

    def astype(self, dtype):
        return _Series(self.cells, self.index)

    def copy(self):
        return _Series(self.cells, self.index)

    def apply(self, fn):
        return _Series([fn(c) for c in self.cells], self.index)

    def reset_index(self, drop=False):
        if not drop:
            raise Unsupported("Series.reset_index(drop=False)")
        return _Series(self.cells)

    def is_integer(self):
        return all(isinstance(c, (int, SInt)) and not isinstance(c, bool) for c in self.cells)


class _Frame:
    def __init__(self, data, index=None):
        cols = {}
        for k, v in data.items():
            cols[k] = v if isinstance(v, _Series) else _Series(v, index)
        ser = [v for k, v in data.items() if isinstance(v, _Series)]
        if index is None and ser:
            index = ser[0].index
            if any(x.index != index for x in ser):
                raise Unsupported("DataFrame from Series with different indexes")
        n = len(next(iter(cols.values())).cells) if cols else 0
        self.index = list(range(n)) if index is None else list(index)
        self.data = {k: _Series(v.cells, self.index) for k, v in cols.items()}

    @property
    def columns(self):
        return _Cols(self.data.keys())

    def __len__(self):
        return len(self.index)

    def copy(self):
        return _Frame({k: v.copy() for k, v in self.data.items()}, self.index)

    def __getitem__(self, k):
        return self.data[k]

    def __setitem__(self, k, v):
        if isinstance(v, _Series):
            # pandas: a Series is aligned on the ROW LABELS of the frame; labels it does not have become missing
            if len(set(v.index)) != len(v.index):
                raise ValueError("cannot reindex on an axis with duplicate labels")
            at = {lab: c for lab, c in zip(v.index, v.cells)}
            self.data[k] = _Series([at.get(lab, NA) for lab in self.index], self.index)
        else:
            v = list(v)
            if len(v) != len(self.index):
                raise ValueError("Length of values does not match length of index")
            self.data[k] = _Series(v, self.index)

    def map(self, fn):
        return _Frame({k: v.apply(fn) for k, v in self.data.items()}, self.index)

    def reset_index(self, drop=False):
        if not drop:
            raise Unsupported("DataFrame.reset_index(drop=False)")
        return _Frame({k: _Series(v.cells) for k, v in self.data.items()})

    def to_dict(self, orient="dict"):
        if orient != "list":
            raise Unsupported("DataFrame.to_dict orient=" + orient)
        return {k: list(v.cells) for k, v in self.data.items()}


class _PdShim:
    """the names csv/_import.py uses from pandas"""

    DataFrame = _Frame
    Series = _Series

    @staticmethod
    def isna(x):
        return _isna(x)

    @staticmethod
    def Int64Dtype():
        return "Int64"

    @staticmethod
    def read_csv(*a, **k):
        raise Unsupported("read_csv (file I/O)")

    class api:
        class types:
            @staticmethod
            def is_integer_dtype(s):
                return s.is_integer()


class _NpShim:
    """numpy for csv/_import.py: np.array(list of symbolic cells) is a symbolic column"""

    def __getattr__(self, k):
        return getattr(np, k)

    @staticmethod
    def array(x, *a, **k):
        if isinstance(x, list) and any(isinstance(v, (SInt, SReal)) for v in x):
            from sx.rt import tonum

            cells = np.empty(len(x), dtype=object)
            for i, v in enumerate(x):
                cells[i] = tonum(v)
            return SArr(cells, np.float64 if any(isinstance(v, SReal) for v in x) else np.int64)
        return np.array(x, *a, **k)


def install_csv():
    _REAL.update(pd=ci.pd, np=ci.np, infer=tb.infer_dtype_from_array)
    ci.pd, ci.np = _PdShim, _NpShim()
    tb.infer_dtype_from_array = _infer_dtype


def remove_csv():
    ci.pd, ci.np = _REAL["pd"], _REAL["np"]
    tb.infer_dtype_from_array = _REAL["infer"]


STR_VOCAB = ["", "a", "-1", "nan"]


def csv_harness(ctx, cfg):
    ids = list(cfg["ids"])
    n = len(ids)
    strings = isinstance(ids[0], str)
    unknown = "zz" if strings else NO_ROW
    nones = cfg.get("none_codes", [NA, -1] if not strings else [NA, ""])
    dom = [("row", v) for v in dict.fromkeys(ids)] + [("unknown", unknown)] + [("none", v) for v in nones]
    parents, pcode = [], []
    for i in range(n):
        kind, v = dom[ctx.choose(len(dom), f"parent{i}")]
        parents.append(v)
        pcode.append([kind, None if v is NA else v])
    colspec = cfg["columns"]  # name -> "id" | "parent" | "int" | "real" | "str"
    data, sym, strs = {}, {}, {}
    for name, kind in colspec.items():
        if kind == "id":
            data[name] = list(ids)
        elif kind == "parent":
            data[name] = list(parents)
        elif kind == "str":
            # a text column: every cell one of a few strings, the empty string among them (decided by forks)
            strs[name] = [STR_VOCAB[ctx.choose(len(STR_VOCAB), f"str_{name}_{i}")] for i in range(n)]
            data[name] = list(strs[name])
        else:
            col = _column(name, n, kind)
            sym[name] = col
            data[name] = [x for x in col]
    name_map = dict(cfg["name_map"])
    ctx.input("str_cells", strs)
    ctx.input("route", "csv")
    ctx.input("ids", ids)
    ctx.input("parents", pcode)
    ctx.input("columns", dict(colspec))
    ctx.input("name_map", name_map)
    ctx.input("cells", {k: [x for x in v.c.flat] for k, v in sym.items()})
    ctx.input("node_features", cfg.get("features"))
    ctx.input("index", cfg.get("index"))
    ctx.input("expect_malformed", bool(malformed(ids, [(parents[i], ids[i]) for i in range(n) if pcode[i][0] != "none"])
                                       or cfg.get("expect_missing_required", False)))
    install_csv()
    exc = tr = None
    try:
        with warnings.catch_warnings():
            warnings.simplefilter("ignore")
            tr = ci.tracks_from_df(_Frame(data, cfg.get("index")), node_name_map=dict(name_map),
                                   features=cfg.get("features"))
    except Unsupported:
        raise
    except Exception as e:
        reraise_model_gap(e)
        exc = e
    finally:
        remove_csv()
    # ---- expectation
    links = [(parents[i], ids[i]) for i in range(n) if pcode[i][0] != "none"]
    bad = malformed(ids, links) or cfg.get("expect_missing_required", False)
    if bad:
        ctx.tag("malformed")
        ctx.oblige("C12.malformed_source_rejected_with_ValueError", isinstance(exc, ValueError), "C12")
        return
    ctx.tag("imported")
    ctx.env.update(exc=repr(exc))
    ctx.oblige("C12.wellformed_source_accepted", exc is None, "C12")
    if exc is not None:
        return
    ren = csv_renumbering(ids)
    g = tr.graph
    ctx.oblige("C12.nodes_are_the_source_ids", sorted(g.nodes) == sorted(ren.values()), "C12")
    ctx.oblige("C12.edges_are_the_source_links", sorted(g.edges) == sorted((ren[u], ren[v]) for u, v in links), "C12")
    nm = effective_map(name_map)
    cs = []
    for std, src in nm.items():
        if std in ("id", "parent_id"):
            continue
        for i in range(n):
            a = g.nodes[ren[ids[i]]] if ren[ids[i]] in g.nodes else {}
            got = a.get(std)
            if isinstance(src, list):
                want = [sym[c][i] for c in src]
                got = list(got) if got is not None else None
            elif src in strs:
                cs.append(z3.BoolVal(isinstance(got, str) and got == strs[src][i]))
                continue
            else:
                want = sym[src][i]
            cs.append(same_value(got, want))
    ctx.oblige("C12.mapped_values_equal_source_in_mapped_order", And(cs), "C12")
    ctx.oblige("C12.time_and_position_readable", And([
        And(same_value(tr.get_time(ren[ids[i]]), sym[nm["time"]][i]),
            same_value(list(tr.get_position(ren[ids[i]])), [sym[c][i] for c in nm["pos"]]))
        for i in range(n)]), "C12")


def csv_renumbering(ids):
    """integer ids are kept; other ids are numbered 1.. in order of first appearance (one-to-one)"""
    if all(isinstance(v, int) for v in ids):
        return {v: v for v in ids}
    out = {}
    for v in ids:
        out.setdefault(v, len(out) + 1)
    return out


def csv_replay(f):
    import pandas as pd

    from funtracks.import_export.csv._import import tracks_from_df

    inp, ob = f["inputs"], f["obligation"]
    ids = list(inp["ids"])
    n = len(ids)
    parents = [(np.nan if v is None else v) for _, v in inp["parents"]]
    data, cols = {}, {}
    for name, kind in inp["columns"].items():
        if kind == "id":
            data[name] = ids
        elif kind == "parent":
            data[name] = parents
        elif kind == "str":
            cols[name] = list(inp["str_cells"][name])
            data[name] = cols[name]
        else:
            cols[name] = np.array([_num(v) for v in inp["cells"][name]], dtype=np.int64 if kind == "int" else float)
            data[name] = cols[name]
    df = pd.DataFrame(data, index=inp.get("index"))
    exc = tr = None
    try:
        with warnings.catch_warnings():
            warnings.simplefilter("ignore")
            tr = tracks_from_df(df, node_name_map=dict(inp["name_map"]), features=inp.get("node_features"))
    except Exception as e:
        reraise_model_gap(e)
        exc = e
    links = [(parents[i], ids[i]) for i in range(n) if inp["parents"][i][0] != "none"]
    ren = csv_renumbering(ids)
    detail = f"table={ {k: list(v) for k, v in data.items()} } index={inp.get('index')} name_map={inp['name_map']} " \
             f"-> exc={exc!r}"
    em = inp.get("expect_malformed")
    if em is not None and em != (ob == "C12.malformed_source_rejected_with_ValueError"):
        return False, "obligation does not apply: the source is " + ("malformed" if em else "well-formed")
    if ob == "C12.malformed_source_rejected_with_ValueError":
        return (not isinstance(exc, ValueError)), detail + (
            f" imported nodes={sorted(tr.graph.nodes)} edges={sorted(tr.graph.edges)}" if tr is not None else "")
    if ob == "C12.wellformed_source_accepted":
        return exc is not None, detail
    if exc is not None:
        return False, detail
    g = tr.graph
    detail += f" nodes={list(g.nodes(data=True))} edges={sorted(g.edges)}"
    if ob == "C12.nodes_are_the_source_ids":
        return sorted(g.nodes) != sorted(ren.values()), detail
    if ob == "C12.edges_are_the_source_links":
        return sorted(g.edges) != sorted((ren[u], ren[v]) for u, v in links), detail
    nm = effective_map(inp["name_map"])
    if ob == "C12.mapped_values_equal_source_in_mapped_order":
        for std, src in nm.items():
            if std in ("id", "parent_id"):
                continue
            for i in range(n):
                got = g.nodes[ren[ids[i]]].get(std)
                want = [cols[c][i] for c in src] if isinstance(src, list) else cols[src][i]
                if isinstance(want, str):
                    if not (isinstance(got, str) and got == want):
                        return True, detail + f" row {i}: {std}={got!r}, source {src}={want!r}"
                    continue
                if got is None or not _eq(got, want):
                    return True, detail + f" row {i}: {std}={got!r}, source {src}={np.asarray(want).tolist()}"
        return False, detail
    if ob == "C12.time_and_position_readable":
        for i in range(n):
            m = ren[ids[i]]
            if not _eq(tr.get_time(m), cols[nm["time"]][i]) or not _eq(tr.get_position(m),
                                                                         [cols[c][i] for c in nm["pos"]]):
                return True, detail + f" row {i}: time={tr.get_time(m)} pos={tr.get_position(m)}"
        return False, detail
    return False, "no oracle for " + ob
