"""Numeric kernels of funtracks that the main harnesses replace by contract stubs, checked on their own:
the two `_compute_ious` copies (C09 / C18) and `regionprops_extended` (C08: area and centroid only).

The input arrays are symbolic with a small finite label domain and are REALISED before the call
(solver-guided case split over every cell: each path is one concrete array, all arrays of the bound are
covered); the real function then runs on a real numpy array and its result is compared with the
definition.  This is the bounded-exhaustive end of the technique: the solver enumerates, it does not
abstract - which is what these compiled-numpy kernels allow."""
from __future__ import annotations

import numpy as np

from sx.arr import SArr
from sx.rt import And


def _frames(ctx, names, shape, labels, dtype=np.int64, label_set=None):
    from sx.rt import Or

    ctx.allow_realise = True
    out = []
    for nm in names:
        a = SArr.fresh(nm, shape, dtype)
        for x in a.c.flat:
            if label_set is not None:
                ctx.add(Or([x == v for v in label_set]))  # e.g. large labels of a narrow integer dtype
            else:
                ctx.add(And(x >= 0, x <= labels))
        out.append(a)
    arrs = [np.asarray(a) for a in out]  # realisation: forks over every cell value
    return arrs


def _iou_definition(f1, f2):
    want = {}
    for a in np.unique(f1):
        for b in np.unique(f2):
            if a == 0 or b == 0:
                continue
            inter = int(np.sum((f1 == a) & (f2 == b)))
            if inter:
                want[(int(a), int(b))] = inter / int(np.sum((f1 == a) | (f2 == b)))
    return want


def _real_ious(which):
    if which == "annotators":
        from funtracks.annotators._compute_ious import _compute_ious
    else:
        from funtracks.candidate_graph.iou import _compute_ious
    return _compute_ious


def _judge_ious(which, f1, f2):
    try:
        got = {(int(a), int(b)): float(v) for a, b, v in _real_ious(which)(f1, f2)}
    except Exception as e:  # noqa: BLE001
        return False, f"_compute_ious({f1.tolist()}, {f2.tolist()}) raised {type(e).__name__}: {e}"
    want = _iou_definition(f1, f2)
    ok = set(got) == set(want) and all(abs(got[k] - want[k]) <= 1e-12 for k in want)
    return ok, f"_compute_ious[{which}]({f1.tolist()}, {f2.tolist()}) = {got}; |A&B|/|A|B| per overlapping pair = {want}"


def ious_harness(ctx, cfg):
    dt = np.dtype(cfg.get("dtype", "int64"))
    f1, f2 = _frames(ctx, ("a", "b"), tuple(cfg["shape"]), cfg.get("labels"), dt, cfg.get("label_set"))
    ctx.input("dtype", dt.name)
    ctx.input("which", cfg["which"])
    ctx.input("f1", f1.tolist())
    ctx.input("f2", f2.tolist())
    ok, _ = _judge_ious(cfg["which"], f1, f2)
    ctx.tag("kernel_ran")
    prop = cfg.get("prop", "C09")
    ctx.oblige(f"{prop}.iou_kernel_equals_definition", ok, prop)


def ious_replay(f):
    i = f["inputs"]
    dt = np.dtype(i.get("dtype", "int64"))
    ok, detail = _judge_ious(i["which"], np.array(i["f1"], dtype=dt), np.array(i["f2"], dtype=dt))
    return (not ok), detail


def spacings(ndim):
    return [None, (1.0,) * ndim, (0.5, 2.0, 1.5)[:ndim], (3.0, 0.25, 0.75)[:ndim]]


def _judge_rp(fr, sp):
    from funtracks.annotators._regionprops_extended import regionprops_extended

    try:
        regs = {r.label: r for r in regionprops_extended(fr, spacing=sp)}
    except Exception as e:  # noqa: BLE001
        return False, f"regionprops_extended({fr.tolist()}, spacing={sp}) raised {type(e).__name__}: {e}"
    spv = np.ones(fr.ndim) if sp is None else np.array(sp)
    labs = sorted(int(x) for x in np.unique(fr) if x != 0)
    if sorted(regs) != labs:
        return False, f"regions {sorted(regs)} for labels {labs} in {fr.tolist()}"
    for lab in labs:
        coords = np.argwhere(fr == lab)
        r = regs[lab]
        if not np.isclose(r.area, len(coords) * np.prod(spv)):
            return False, f"label {lab} of {fr.tolist()} spacing {sp}: area {r.area}, pixel count x voxel size " \
                          f"{len(coords) * np.prod(spv)}"
        if not np.allclose(r.centroid, coords.mean(axis=0) * spv):
            return False, f"label {lab} of {fr.tolist()} spacing {sp}: centroid {tuple(r.centroid)}, scaled mean " \
                          f"coordinate {tuple(coords.mean(axis=0) * spv)}"
        alone = regionprops_extended(np.where(fr == lab, lab, 0), spacing=sp)[0]
        if not np.isclose(r.area, alone.area) or not np.allclose(r.centroid, alone.centroid):
            return False, f"label {lab} of {fr.tolist()}: values depend on the other labels of the frame"
    return True, f"regionprops_extended({fr.tolist()}, spacing={sp}) ok"


def rp_harness(ctx, cfg):
    (fr,) = _frames(ctx, ("f",), tuple(cfg["shape"]), cfg["labels"])
    sps = spacings(fr.ndim)
    sp = sps[ctx.choose(len(sps), "spacing")]
    ctx.input("frame", fr.tolist())
    ctx.input("spacing", None if sp is None else list(sp))
    ok, _ = _judge_rp(fr, sp)
    ctx.tag("kernel_ran")
    ctx.oblige("C08.area_is_count_times_voxel_and_position_is_scaled_centroid", ok, "C08")


def rp_replay(f):
    i = f["inputs"]
    ok, detail = _judge_rp(np.array(i["frame"], dtype=np.int64), None if i["spacing"] is None else tuple(i["spacing"]))
    return (not ok), detail
