"""Replay of a step-harness counterexample on the UNMODIFIED stack (real networkx
graph, real SolutionTracks, lookups built by the real constructor) with plain-python
oracles that share nothing with the symbolic encoding."""
from __future__ import annotations

import copy
import warnings

import networkx as nx

T, TID, LID, POS, CUS = "t", "track_id", "lineage_id", "pos", "custom"
ECUS = "edge_custom"


def build_real(inp):
    from funtracks.actions._base import Action
    from funtracks.data_model import SolutionTracks

    N = inp["N"]
    g = nx.DiGraph()
    for i in range(N):
        if inp["alive"][i]:
            attrs = {T: inp["t"][i], TID: inp["tid"][i], CUS: inp["cus"][i]}
            if inp.get("multi_pos"):
                attrs["y"], attrs["x"] = float(i), float(2 * i)
            else:
                attrs[POS] = [float(i), float(2 * i)]
            if inp.get("lineage", True):
                attrs[LID] = inp["lid"][i]
            g.add_node(i + 1, **attrs)
    so = {int(k): v for k, v in (inp.get("succ_order") or {}).items()}
    for i in range(N):
        kids = [j + 1 for j in range(N) if inp["adj"][i][j]]
        first = [c for c in so.get(i + 1, []) if c in kids]
        for c in first + [c for c in kids if c not in first]:  # adjacency (= iteration) order as in the model
            g.add_edge(i + 1, c)
            if inp.get("ecus") is not None:
                g.edges[i + 1, c][ECUS] = inp["ecus"][i][c - 1]
    tr = SolutionTracks(g, ndim=3, time_attr=T, tracklet_attr=TID, lineage_attr=LID,
                        pos_attr=["y", "x"] if inp.get("multi_pos") else None)
    if inp.get("ecus") is not None:
        tr.features[ECUS] = {"feature_type": "edge", "value_type": "int", "num_values": 1, "required": False,
                             "default_value": None}
    tr.features[CUS] = {"feature_type": "node", "value_type": "int", "num_values": 1, "required": False,
                        "default_value": None}
    ta = tr.track_annotator
    # the symbolic pre-state allows any running maximum >= the ids in use (reachable by
    # adding and deleting a node with a large explicit id)
    ta.max_tracklet_id = max(ta.max_tracklet_id, inp["max_tid"])
    ta.max_lineage_id = max(ta.max_lineage_id, inp["max_lid"])

    class H(Action):
        def __init__(self, name):
            self.name = name

        def inverse(self):
            raise AssertionError("pre-existing history entry inverted")

    tr.action_history.undo_stack = [H("U1"), H("U2")]
    tr.action_history.redo_stack = [H("R1")]
    return tr


def snapshot(tr):
    g = tr.graph
    nk = list(tr.features.node_features.keys())
    ek = list(tr.features.edge_features.keys())
    ta = tr.track_annotator
    return dict(
        nodes=set(g.nodes()),
        edges=set(g.edges()),
        nattr={n: {k: _norm(g.nodes[n].get(k)) for k in nk} for n in g.nodes()},
        eattr={e: {k: _norm(g.edges[e].get(k)) for k in ek} for e in g.edges()},
        look_t={k: sorted(v) for k, v in ta.tracklet_id_to_nodes.items()},
        look_l={k: sorted(v) for k, v in ta.lineage_id_to_nodes.items()},
        maxt=ta.max_tracklet_id, maxl=ta.max_lineage_id,
        undo=list(tr.action_history.undo_stack), redo=list(tr.action_history.redo_stack),
        feature_keys=sorted(tr.features.keys()), counter=tr.node_id_counter,
        seg=None if tr.segmentation is None else tr.segmentation.copy(),
    )


def _norm(v):
    try:
        import numpy as np

        if isinstance(v, np.ndarray):
            return v.tolist()
        if isinstance(v, np.generic):
            return v.item()
    except Exception:
        pass
    if isinstance(v, tuple):
        return list(v)
    return v


def same_graph(a, b):
    return a["nodes"] == b["nodes"] and a["edges"] == b["edges"]


def same_attrs(a, b):
    return a["nattr"] == b["nattr"] and a["eattr"] == b["eattr"]


def same_lookups(a, b):
    return a["look_t"] == b["look_t"] and a["look_l"] == b["look_l"] and a["maxt"] == b["maxt"] \
        and a["maxl"] == b["maxl"]


def same_history(a, b):
    return len(a["undo"]) == len(b["undo"]) and all(x is y for x, y in zip(a["undo"], b["undo"])) \
        and len(a["redo"]) == len(b["redo"]) and all(x is y for x, y in zip(a["redo"], b["redo"]))


def run_action(tr, inp):
    from funtracks import actions as A
    from funtracks import user_actions as U

    kind = inp["action"]
    a = inp["args"]
    if kind == "UserAddEdge":
        return U.UserAddEdge(tr, (a["u"], a["v"]), force=a["force"])
    if kind == "UserDeleteEdge":
        return U.UserDeleteEdge(tr, (a["u"], a["v"]))
    if kind == "UserSwapPredecessors":
        return U.UserSwapPredecessors(tr, (a["u"], a["v"]))
    if kind == "AddEdge":
        return A.AddEdge(tr, (a["u"], a["v"]))
    if kind == "DeleteEdge":
        return A.DeleteEdge(tr, (a["u"], a["v"]))
    if kind == "UserDeleteNode":
        return U.UserDeleteNode(tr, a["n"])
    if kind == "DeleteNode":
        return A.DeleteNode(tr, a["n"])
    if kind in ("UserAddNode", "AddNode"):
        attrs = {T: a["t"], TID: a["tid"], CUS: a["cus"]}
        if inp.get("multi_pos"):
            attrs["y"], attrs["x"] = 0.5, 0.25
        else:
            attrs[POS] = [0.5, 0.25]
        sh = a["shape"]
        if sh == "no_time":
            del attrs[T]
        elif sh == "no_track_id":
            del attrs[TID]
        elif sh == "no_pos":
            for kk in (POS, "y", "x"):
                attrs.pop(kk, None)
        elif sh == "partial_pos":
            del attrs["x"]
        elif sh == "with_lineage":
            attrs[LID] = a["lid"]
        if kind == "UserAddNode":
            return U.UserAddNode(tr, a["n"], attrs, force=a["force"])
        return A.AddNode(tr, a["n"], attrs)
    if kind in ("UserUpdateNodeAttrs", "UpdateNodeAttrs"):
        attrs = {a["key"]: a["val"]}
        if a.get("key2") is not None:
            attrs[a["key2"]] = a["val2"]
        if kind == "UserUpdateNodeAttrs":
            return U.UserUpdateNodeAttrs(tr, a["n"], attrs)
        return A.UpdateNodeAttrs(tr, a["n"], attrs)
    if kind == "UpdateTrackIDs":
        return A.UpdateTrackIDs(tr, a["n"], a["tid"], a["lid"])
    raise AssertionError(kind)


def _signal_delivers(tr, emitted):
    n0 = len(emitted)
    tr.refresh.emit("verif-probe")
    ok = len(emitted) == n0 + 1
    del emitted[n0:]
    return ok


# ---------------------------------------------------------------- oracles
def tracklet_components(g):
    h = nx.Graph()
    h.add_nodes_from(g.nodes())
    for u, v in g.edges():
        if g.out_degree(u) == 1:
            h.add_edge(u, v)
    return list(nx.connected_components(h))


def partition_ok(g, key, comps):
    """ids equal <=> same component"""
    where = {}
    for ci, c in enumerate(comps):
        for n in c:
            where[n] = ci
    nodes = list(g.nodes())
    for n in nodes:
        if g.nodes[n].get(key) is None:
            return False
    for i, a in enumerate(nodes):
        for b in nodes[i + 1:]:
            if (g.nodes[a][key] == g.nodes[b][key]) != (where[a] == where[b]):
                return False
    return True


def lookups_ok(tr, lineage=True):
    g, ta = tr.graph, tr.track_annotator
    pairs = [(ta.tracklet_id_to_nodes, TID, ta.max_tracklet_id)]
    if lineage:
        pairs.append((ta.lineage_id_to_nodes, LID, ta.max_lineage_id))
    for d, key, mx in pairs:
        want = {}
        for n in g.nodes():
            want.setdefault(g.nodes[n].get(key), []).append(n)
        if None in want:
            return False, f"node without {key}"
        got = {k: list(v) for k, v in d.items()}
        for k, v in got.items():
            if len(v) != len(set(v)) or not v:
                return False, f"{key} entry {k} duplicated/empty: {v}"
        if {k: sorted(v) for k, v in got.items()} != {k: sorted(v) for k, v in want.items()}:
            return False, f"{key}: lookup {got} != graph {want}"
        if any(k > mx for k in want):
            return False, f"{key}: max {mx} below an id in use"
    return True, ""


def replay_query(inp, ob):
    tr = build_real(inp)
    g = tr.graph
    a = inp["args"]
    if ob.startswith("C06.track_neighbors") or ob == "C06.has_track_id_at_time":
        k, t = a["k"], a["t"]
        on = [n for n in g.nodes() if g.nodes[n][TID] == k]
        before = [n for n in on if g.nodes[n][T] < t]
        after = [n for n in on if g.nodes[n][T] > t]
        want_pred = max(before, key=lambda n: g.nodes[n][T]) if before else None
        want_succ = min(after, key=lambda n: g.nodes[n][T]) if after else None
        if ob == "C06.has_track_id_at_time":
            r = tr.has_track_id_at_time(k, t)
            want = any(g.nodes[n][T] == t for n in on)
            return bool(r) != want, f"has_track_id_at_time({k},{t}) = {r}, scan says {want}"
        pred, succ = tr.get_track_neighbors(k, t)
        if ob.endswith("pred"):
            return pred != want_pred, f"get_track_neighbors({k},{t}) pred={pred}, scan says {want_pred}"
        return succ != want_succ, f"get_track_neighbors({k},{t}) succ={succ}, scan says {want_succ}"
    if ob.startswith("C06.new_node_ids") or ob == "C06.counter_moves_past_issued_ids":
        tr.node_id_counter = a["counter"]
        before = set(g.nodes())
        ids = tr._get_new_node_ids(a["n"])
        detail = f"counter={a['counter']} n={a['n']} nodes={sorted(before)} -> ids={ids} counter={tr.node_id_counter}"
        if ob == "C06.new_node_ids_unused":
            return any(i in before for i in ids), detail
        if ob == "C06.new_node_ids_distinct":
            return len(set(ids)) != len(ids), detail
        return any(tr.node_id_counter <= i for i in ids), detail
    if ob == "C06.next_ids_unused":
        nt, nl = tr.get_next_track_id(), tr.get_next_lineage_id()
        bad = any(g.nodes[n][TID] == nt or g.nodes[n][LID] == nl for n in g.nodes())
        return bad, f"next track id {nt}, next lineage id {nl}"
    return False, "no oracle"


def replay_construct(inp, ob):
    from funtracks.data_model import SolutionTracks

    N = inp["N"]
    g = nx.DiGraph()
    for i in range(N):
        if inp["alive"][i]:
            g.add_node(i + 1, **{T: inp["t"][i], POS: [float(i), 0.0]})
    for i in range(N):
        for j in range(N):
            if inp["adj"][i][j]:
                g.add_edge(i + 1, j + 1)
    edges0 = set(g.edges())
    tr = SolutionTracks(g, ndim=3, time_attr=T, tracklet_attr=TID, lineage_attr=LID)
    g1 = tr.graph
    detail = f"edges={sorted(edges0)} ids={ {n: (d.get(TID), d.get(LID)) for n, d in g1.nodes(data=True)} }"
    if ob == "C04.partition_after_construction":
        return (not partition_ok(g1, TID, tracklet_components(g1))), detail
    if ob == "C05.partition_after_construction":
        return (not partition_ok(g1, LID, list(nx.weakly_connected_components(g1)))), detail
    if ob == "C06.lookups_after_construction":
        ok, why = lookups_ok(tr, True)
        return (not ok), detail + " " + why
    if ob == "C16.construction_keeps_graph":
        return set(g1.edges()) != edges0, detail
    return False, "no oracle"


def replay_from_tracks(inp, ob):
    from funtracks.data_model import SolutionTracks, Tracks
    from funtracks.user_actions import UserDeleteEdge

    N = inp["N"]
    g = nx.DiGraph()
    for i in range(N):
        if inp["alive"][i]:
            d = {T: inp["t"][i], POS: [float(i), 0.0]}
            if inp["missing"] != i + 1:
                d[TID], d[LID] = inp["tid"][i], inp["lid"][i]
            g.add_node(i + 1, **d)
    for i in range(N):
        for j in range(N):
            if inp["adj"][i][j]:
                g.add_edge(i + 1, j + 1)
    st = SolutionTracks.from_tracks(Tracks(g, ndim=3, time_attr=T, tracklet_attr=TID, lineage_attr=LID))
    g1 = st.graph
    if ob.endswith("_and_edit"):
        a = inp["args"]
        UserDeleteEdge(st, (a["u"], a["v"]))
    detail = f"edges={sorted(g1.edges())} ids={ {n: (d.get(TID), d.get(LID)) for n, d in g1.nodes(data=True)} } " \
             f"missing={inp['missing']} args={inp.get('args')}"
    if ob.startswith("C04"):
        return (not partition_ok(g1, TID, tracklet_components(g1))), detail
    return (not partition_ok(g1, LID, list(nx.weakly_connected_components(g1)))), detail


def replay(failure):
    """returns (reproduced: bool, detail: str)"""
    inp = failure["inputs"]
    ob = failure["obligation"]
    if inp.get("action") == "from_tracks":
        with warnings.catch_warnings():
            warnings.simplefilter("ignore")
            return replay_from_tracks(inp, ob)
    if inp.get("action") == "query":
        with warnings.catch_warnings():
            warnings.simplefilter("ignore")
            return replay_query(inp, ob)
    if inp.get("action") == "construct":
        with warnings.catch_warnings():
            warnings.simplefilter("ignore")
            return replay_construct(inp, ob)
    with warnings.catch_warnings():
        warnings.simplefilter("ignore")
        tr = build_real(inp)
        emitted = []
        tr.refresh.connect(lambda *a: emitted.append(a))
        disabled = inp.get("disabled") or []
        if disabled:
            tr.disable_features(list(disabled))
        raw_n0 = {n: dict(d) for n, d in tr.graph.nodes(data=True)}
        S0 = snapshot(tr)
        g0 = tr.graph.copy()
        kind = inp["action"]
        is_user = kind.startswith("User")
        lineage = inp.get("lineage", True)
        try:
            act = run_action(tr, inp)
            exc = None
        except Exception as e:
            act, exc = None, e
        S1 = snapshot(tr)
        g1 = tr.graph
        if exc is not None:
            checks = {
                "C11.graph_unchanged": same_graph(S0, S1),
                "C11.attrs_unchanged": same_attrs(S0, S1),
                "C11.lookups_unchanged": same_lookups(S0, S1),
                "C11.history_unchanged": same_history(S0, S1),
                "C11.no_refresh": len(emitted) == 0,
                "C11.registry_unchanged": S0["feature_keys"] == S1["feature_keys"] and S0["counter"] == S1["counter"],
                "C20.refused_emits_none": len(emitted) == 0,
                "C20.signal_delivers_after_refusal": _signal_delivers(tr, emitted),
            }
            if ob == "C03.refusal_type":
                from funtracks.exceptions import InvalidActionError

                return (not isinstance(exc, InvalidActionError)), f"refused with {type(exc).__name__}: {exc}"
            if ob in checks:
                return (not checks[ob]), f"refused with {type(exc).__name__}: {exc}; pre={_brief(S0)} post={_brief(S1)}"
            return False, f"action refused ({type(exc).__name__}: {exc}) but obligation {ob} is about an accepted edit"
        if ob.startswith("C11") or ob in ("C20.refused_emits_none", "C20.signal_delivers_after_refusal",
                                          "C03.refusal_type"):
            return False, "action accepted but obligation is about a refused edit"
        emitted1 = list(emitted)
        detail = f"pre={_brief(S0)} post={_brief(S1)}"
        if ob.endswith((":after_edit", ":after_undo")) and ob.startswith(("C06.track_neighbors", "C06.has_track_id")):
            # track queries at a history-built state (the engine's run asked after the edit first, then after the undo)
            base, where = ob.rsplit(":", 1)

            def ask(which):
                a = inp.get("query_args:" + which)
                if a is None:
                    return None
                g = tr.graph
                k_, t_ = a["k"], a["t"]
                on = [n for n in g.nodes() if g.nodes[n][TID] == k_]
                before = [n for n in on if g.nodes[n][T] < t_]
                after = [n for n in on if g.nodes[n][T] > t_]
                want_pred = max(before, key=lambda n: g.nodes[n][T]) if before else None
                want_succ = min(after, key=lambda n: g.nodes[n][T]) if after else None
                if base == "C06.has_track_id_at_time":
                    r = tr.has_track_id_at_time(k_, t_)
                    want = any(g.nodes[n][T] == t_ for n in on)
                    return bool(r) != want, f"has_track_id_at_time({k_},{t_}) = {r}, scan says {want}"
                pred, succ = tr.get_track_neighbors(k_, t_)
                if base.endswith("pred"):
                    return pred != want_pred, f"get_track_neighbors({k_},{t_}) pred={pred}, scan says {want_pred}"
                return succ != want_succ, f"get_track_neighbors({k_},{t_}) succ={succ}, scan says {want_succ}"

            r = ask("after_edit")
            if where == "after_edit":
                return (r[0], detail + " after the edit: " + r[1]) if r else (False, "no query recorded")
            tr.undo()
            r = ask("after_undo")
            return (r[0], detail + f" undone={_brief(snapshot(tr))} after the undo: " + r[1]) if r else (
                False, "no query recorded")
        if ob.endswith(".holds_after_two_edits") or ob.startswith("C01.second_edit_"):
            # two-edit history: (edit | edit, undo), then a second user action
            if inp.get("followup_after") == "undo":
                tr.undo()
                detail += f" undone={_brief(snapshot(tr))}"
            inp2 = dict(inp)
            inp2["action"], inp2["args"] = inp["action2"], inp["args_2"]
            Sa = snapshot(tr)
            try:
                run_action(tr, inp2)
            except Exception as e:
                return False, detail + f" second action {inp['action2']}{inp['args_2']} refused: {type(e).__name__}: {e}"
            g2 = tr.graph
            detail += f" second={inp['action2']}{inp['args_2']} final={_brief(snapshot(tr))}"
            q = ob[:3]
            if q == "C01":
                Sb = snapshot(tr)
                try:
                    tr.undo()
                    Sc = snapshot(tr)
                    tr.redo()
                    Sd = snapshot(tr)
                except Exception as e:
                    return ob == "C01.second_edit_inverse_applies", detail + f" inverse raised {type(e).__name__}: {e}"
                detail += f" undone={_brief(Sc)} redone={_brief(Sd)}"
                if ob == "C01.second_edit_undo_exact":
                    return not (same_graph(Sa, Sc) and same_attrs(Sa, Sc)), detail
                if ob == "C01.second_edit_redo_exact":
                    return not (same_graph(Sb, Sd) and same_attrs(Sb, Sd)), detail
                return False, detail
            if q == "C03":
                bad = (any(d > 1 for _, d in g2.in_degree()) or any(d > 2 for _, d in g2.out_degree())
                       or any(not (g2.nodes[u][T] < g2.nodes[v][T]) for u, v in g2.edges()))
                return bad, detail
            if q == "C04":
                return (not partition_ok(g2, TID, tracklet_components(g2))), detail
            if q == "C05":
                return (not partition_ok(g2, LID, list(nx.weakly_connected_components(g2)))), detail
            if q == "C06":
                ok, why = lookups_ok(tr, lineage)
                return (not ok), detail + " " + why
            return False, "no oracle"
        if ob == "C10.disabled_feature_untouched_by_edit":
            for n, d in raw_n0.items():
                if n in g1:
                    for key in disabled:
                        if d.get(key) != g1.nodes[n].get(key):
                            return True, detail + f" node {n}: disabled {key} changed {d.get(key)} -> {g1.nodes[n].get(key)}"
            if LID in disabled and (S0["look_l"] != S1["look_l"] or S0["maxl"] != S1["maxl"]):
                return True, detail + " lineage lookups changed although the feature is disabled"
            if TID in disabled and (S0["look_t"] != S1["look_t"] or S0["maxt"] != S1["maxt"]):
                return True, detail + " tracklet lookups changed although the feature is disabled"
            return False, detail
        if ob.startswith("C03."):
            name = ob[4:]
            if name == "edges_alive":
                return any(u not in g1 or v not in g1 for u, v in g1.edges()), detail
            if name == "indeg_le_1":
                return any(d > 1 for _, d in g1.in_degree()), detail
            if name == "outdeg_le_2":
                return any(d > 2 for _, d in g1.out_degree()), detail
            if name == "forward":
                return any(not (g1.nodes[u][T] < g1.nodes[v][T]) for u, v in g1.edges()), detail
            if name == "only_conflicting_edges_removed":
                a = inp["args"]
                named = (a.get("u"), a.get("v")) if kind in ("UserAddEdge", "UserDeleteEdge") else None
                for (x, y) in S0["edges"] - S1["edges"]:
                    if named == (x, y):
                        continue
                    if x not in g1 or y not in g1:
                        continue
                    if any(q != x for q in g1.predecessors(y)):
                        continue
                    if any((x, c) not in S0["edges"] for c in g1.successors(x)):
                        continue
                    return True, detail + f" removed {(x, y)} without conflict"
                return False, detail
        if ob in ("C05.lineage_update_reaches_all_descendants", "C04.track_update_covers_exactly_the_segment"):
            a = inp["args"]
            start = a["n"]
            if ob.startswith("C05"):
                below = {start} | nx.descendants(g0, start)
                bad = [m for m in g0.nodes() if g1.nodes[m][LID] != (a["lid"] if m in below else g0.nodes[m][LID])]
            else:
                seg = next(c for c in tracklet_components(g0) if start in c)
                onseg = {m for m in seg if m == start or m in nx.descendants(g0, start)}
                bad = [m for m in g0.nodes() if g1.nodes[m][TID] != (a["tid"] if m in onseg else g0.nodes[m][TID])]
            return bool(bad), detail + f" wrong ids on nodes {bad}"
        if ob == "C04.partition":
            return (not partition_ok(g1, TID, tracklet_components(g1))), detail
        if ob == "C05.partition":
            return (not partition_ok(g1, LID, list(nx.weakly_connected_components(g1)))), detail
        if ob in ("C04.frame", "C05.frame"):
            key = TID if ob.startswith("C04") else LID
            a = inp["args"]
            named_nodes = [a[k] for k in ("u", "v", "n") if k in a]
            named_tid = a.get("tid") if kind == "UserAddNode" else None
            for comp in nx.weakly_connected_components(g0):
                if any(m in comp for m in named_nodes):
                    continue
                if named_tid is not None and any(g0.nodes[m][TID] == named_tid for m in comp):
                    continue
                for m in comp:
                    if m not in g1 or g1.nodes[m].get(key) != g0.nodes[m].get(key):
                        return True, detail + f" node {m} changed {key}"
            return False, detail
        if ob in ("C06.lookups", "C06.wellformed", "C06.max_ids"):
            ok, why = lookups_ok(tr, lineage)
            return (not ok), detail + " " + why
        if ob == "C02.one_entry":
            ok = (len(S1["undo"]) == len(S0["undo"]) + len(S0["redo"]) + 1 and S1["undo"][-1] is act
                  and S1["redo"] == [] and all(x is y for x, y in zip(S1["undo"], S0["undo"] + S0["redo"])))
            return (not ok), detail
        if ob == "C20.one_refresh":
            return len(emitted1) != 1, f"emitted {emitted1}"
        if ob == "C20.payload":
            if len(emitted1) != 1:
                return False, "not exactly one emission"
            if kind == "UserAddNode":
                return emitted1[0] != (inp["args"]["n"],), f"emitted {emitted1}"
            return emitted1[0] not in ((), (None,)), f"emitted {emitted1}"
        # inverse / undo / redo
        del emitted[:]
        try:
            if is_user:
                r1 = tr.undo()
                S2 = snapshot(tr)
                ok2, why2 = lookups_ok(tr, lineage)
                e2 = list(emitted)
                del emitted[:]
                r2 = tr.redo()
                S3 = snapshot(tr)
                ok3, why3 = lookups_ok(tr, lineage)
                e3 = list(emitted)
            else:
                iv = act.inverse()
                S2 = snapshot(tr)
                ok2, why2 = lookups_ok(tr, lineage)
                iv2 = iv.inverse()
                S3 = snapshot(tr)
                ok3, why3 = lookups_ok(tr, lineage)
                r1 = r2 = True
                e2 = e3 = [()]
        except Exception as e:
            return ob == "C01.inverse_applies", f"inverse raised {type(e).__name__}: {e}"
        detail = f"pre={_brief(S0)} post={_brief(S1)} undone={_brief(S2)} redone={_brief(S3)}"
        if ob in ("C01.second_undo", "C01.second_redo", "C01.inverse_applies_again", "C02.second_undo_redo_return",
                  "C02.second_round_stack_kept", "C02.repeated_undo_reaches_timeline_state",
                  "C02.repeated_redo_reaches_timeline_state", "C02.repeated_undo_applies"):
            try:
                if is_user:
                    r3 = tr.undo()
                    S4 = snapshot(tr)
                    r4 = tr.redo()
                    S5 = snapshot(tr)
                else:
                    iv3 = iv2.inverse()
                    S4 = snapshot(tr)
                    iv3.inverse()
                    S5 = snapshot(tr)
                    r3 = r4 = True
            except Exception as e:
                return ob in ("C01.inverse_applies_again", "C02.repeated_undo_applies"), detail + f" second inverse raised {type(e).__name__}: {e}"
            detail += f" undone_again={_brief(S4)} redone_again={_brief(S5)}"
            table2 = {
                "C01.second_undo": same_graph(S0, S4) and same_attrs(S0, S4),
                "C01.second_redo": same_graph(S1, S5) and same_attrs(S1, S5),
                "C02.repeated_undo_reaches_timeline_state": same_graph(S0, S4) and same_attrs(S0, S4),
                "C02.repeated_redo_reaches_timeline_state": same_graph(S1, S5) and same_attrs(S1, S5),
                "C02.second_undo_redo_return": r3 is True and r4 is True,
                "C02.second_round_stack_kept": same_history(S1, S5),
                "C01.inverse_applies_again": True,
                "C02.repeated_undo_applies": True,
            }
            return (not table2[ob]), detail
        table = {
            "C01.undo_graph": same_graph(S0, S2),
            "C01.undo_attrs": same_attrs(S0, S2),
            "C01.redo_graph": same_graph(S1, S3),
            "C01.redo_attrs": same_attrs(S1, S3),
            "C06.lookups_after_undo": ok2,
            "C06.lookups_after_redo": ok3,
            "C02.undo_redo_return": r1 is True and r2 is True,
            "C02.undo_stack_kept": same_history(S1, S3),
            "C20.undo_one_refresh": len(e2) == 1 and len(e3) == 1,
            "C20.signal_delivers_after_edit": _signal_delivers(tr, emitted),
            "C01.inverse_applies": True,
        }
        if ob in table:
            return (not table[ob]), detail + f" {why2} {why3}"
        return False, f"no oracle for obligation {ob}"


def _brief(S):
    return dict(nodes=sorted(S["nodes"]), edges=sorted(S["edges"]),
                ids={n: (a.get(T), a.get(TID), a.get(LID)) for n, a in sorted(S["nattr"].items())},
                look_t=S["look_t"], look_l=S["look_l"], max=(S["maxt"], S["maxl"]))
