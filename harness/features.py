"""C10: feature switching (real Tracks.enable_features / disable_features / AnnotatorRegistry /
GraphAnnotator activation tables) and protection of managed features (UpdateNodeAttrs)."""
from __future__ import annotations

import z3

from sx.rt import reraise_model_gap  # noqa: F401
from sx.rt import And, Implies, Not, Or, SBool, SInt, Unsupported, same_value

from harness import segstep, step
from harness.step import CUS, LID, POS, T as TK, TID

from funtracks.actions import UpdateNodeAttrs
from funtracks.user_actions import UserUpdateNodeAttrs


def set_flags(ctx, tr):
    """arbitrary activation table: every (annotator, key) flag is decided by a fork; the registry lists
    exactly the static plus active features (Inv item 6)"""
    flags = {}
    static = [k for k in tr.features if k not in tr.annotators.all_features]
    for ann in tr.annotators:
        for key, (feat, _) in list(ann.all_features.items()):
            on = ctx.choose(2, "flag_" + key) == 1
            ann.all_features[key] = (feat, on)
            flags[key] = on
            if on:
                tr.features[key] = feat
            elif key in tr.features:
                del tr.features[key]
    return flags, static


def table(tr):
    return {k: inc for ann in tr.annotators for k, (_, inc) in ann.all_features.items()}


def switch_harness(ctx, cfg):
    with_seg = cfg.get("seg", True)
    if with_seg:
        segstep.install_stubs()
    try:
        _switch(ctx, cfg, with_seg)
    finally:
        if with_seg:
            segstep.remove_stubs()


def _switch(ctx, cfg, with_seg):
    if with_seg:
        p = segstep.build(ctx, dict(N=1, shape=(2, 1, 2), action="none"))
    else:
        p = step.build(ctx, dict(N=1, action="none"))
    tr = p.tr
    flags, static = set_flags(ctx, tr)
    avail = list(tr.annotators.all_features.keys())
    universe = avail + ["no_such_feature"]
    n = 1 + ctx.choose(cfg.get("max_keys", 2), "n_keys")
    keys = [universe[ctx.choose(len(universe), f"key{i}")] for i in range(n)]
    op = ["enable", "disable"][ctx.choose(2, "op")]
    ctx.input("seg", with_seg)
    ctx.input("flags", flags)
    ctx.input("keys", keys)
    ctx.input("op", op)
    reg0 = sorted(tr.features.keys())
    tab0 = table(tr)
    attrs0 = [dict(d) for d in p.g.nattr]
    exc = None
    try:
        if op == "enable":
            tr.enable_features(list(keys), recompute=False)
        else:
            tr.disable_features(list(keys))
    except Unsupported:
        raise
    except Exception as e:
        reraise_model_gap(e)
        exc = e
    tab1 = table(tr)
    reg1 = sorted(tr.features.keys())
    unknown = any(k not in avail for k in keys)
    if unknown:
        ctx.tag("unknown_key")
        ctx.oblige("C10.unknown_key_raises_KeyError", isinstance(exc, KeyError), "C10")
        ctx.oblige("C10.unknown_key_changes_nothing", tab1 == tab0 and reg1 == reg0
                   and all(a == b for a, b in zip(attrs0, p.g.nattr)), "C10")
        return
    ctx.tag("switched")
    ctx.oblige("C10.known_keys_accepted", exc is None, "C10")
    want = dict(tab0)
    for k in keys:
        want[k] = op == "enable"
    ctx.oblige("C10.activation_table", tab1 == want, "C10")
    ctx.oblige("C10.registry_is_static_plus_active", reg1 == sorted(set(static) | {k for k, v in want.items() if v}),
               "C10")
    ctx.oblige("C10.switch_does_not_touch_values", all(a == b for a, b in zip(attrs0, p.g.nattr)), "C10")


def protect_harness(ctx, cfg):
    """Time and every feature an annotator can manage are refused by attribute-update edits, enabled or not"""
    with_seg = cfg.get("seg", True)
    if with_seg:
        segstep.install_stubs()
    try:
        if with_seg:
            p = segstep.build(ctx, dict(N=1, shape=(2, 1, 2), action="none"))
        else:
            p = step.build(ctx, dict(N=1, action="none"))
        tr = p.tr
        flags, static = set_flags(ctx, tr)
        managed = list(tr.annotators.all_features.keys())
        keys = managed + [TK, CUS, "unregistered"] + ([POS] if POS not in managed else [])
        key = keys[ctx.choose(len(keys), "key")]
        user = ctx.choose(2, "user") == 1
        ctx.assume(p.sh0.al[0])
        ctx.input("seg", with_seg)
        ctx.input("flags", flags)
        ctx.input("key", key)
        ctx.input("user", user)
        before = dict(p.g.nattr[0])
        hist0 = list(tr.action_history.undo_stack)
        exc = None
        try:
            (UserUpdateNodeAttrs if user else UpdateNodeAttrs)(tr, 1, {key: SInt(z3.Int("new_val"))})
        except Unsupported:
            raise
        except Exception as e:
            reraise_model_gap(e)
            exc = e
        protected = key in managed or key == TK
        if protected:
            ctx.tag("protected")
            ctx.oblige("C10.managed_feature_refused", isinstance(exc, ValueError), "C10")
            ctx.oblige("C10.refused_update_changes_nothing", all(p.g.nattr[0].get(k) is v for k, v in before.items())
                       and set(p.g.nattr[0]) == set(before) and len(tr.action_history.undo_stack) == len(hist0), "C10")
        else:
            ctx.tag("free")
            ctx.oblige("C10.free_attribute_updatable", exc is None, "C10")
    finally:
        if with_seg:
            segstep.remove_stubs()


def replay(f):
    """concrete re-run on a real SolutionTracks"""
    import warnings

    import networkx as nx
    import numpy as np

    from funtracks.data_model import SolutionTracks

    inp, ob = f["inputs"], f["obligation"]
    with warnings.catch_warnings():
        warnings.simplefilter("ignore")
        g = nx.DiGraph()
        g.add_node(1, **{TK: 0, TID: 1, LID: 1, CUS: 5})
        if inp["seg"]:
            seg = np.zeros((2, 1, 2), dtype=np.int64)
            seg[0, 0, 0] = 1
            tr = SolutionTracks(g, segmentation=seg, ndim=3, time_attr=TK, tracklet_attr=TID, lineage_attr=LID)
        else:
            g.nodes[1][POS] = [0.0, 0.0]
            tr = SolutionTracks(g, ndim=3, time_attr=TK, tracklet_attr=TID, lineage_attr=LID)
        tr.features[CUS] = {"feature_type": "node", "value_type": "int", "num_values": 1, "required": False,
                            "default_value": None}
        static = [k for k in tr.features if k not in tr.annotators.all_features]
        for ann in tr.annotators:
            for key, (feat, _) in list(ann.all_features.items()):
                on = inp["flags"][key]
                ann.all_features[key] = (feat, on)
                if on:
                    tr.features[key] = feat
                elif key in tr.features:
                    del tr.features[key]
        tab0, reg0 = table(tr), sorted(tr.features.keys())
        attrs0 = {n: dict(d) for n, d in tr.graph.nodes(data=True)}
        exc = None
        if "op" in inp:
            try:
                if inp["op"] == "enable":
                    tr.enable_features(list(inp["keys"]), recompute=False)
                else:
                    tr.disable_features(list(inp["keys"]))
            except Exception as e:
                reraise_model_gap(e)
                exc = e
            tab1, reg1 = table(tr), sorted(tr.features.keys())
            attrs1 = {n: dict(d) for n, d in tr.graph.nodes(data=True)}
            want = dict(tab0)
            for k in inp["keys"]:
                want[k] = inp["op"] == "enable"
            detail = f"flags={inp['flags']} {inp['op']}({inp['keys']}) -> exc={exc!r} table={tab1} registry={reg1}"
            res = {
                "C10.unknown_key_raises_KeyError": not isinstance(exc, KeyError),
                "C10.unknown_key_changes_nothing": not (tab1 == tab0 and reg1 == reg0 and attrs0 == attrs1),
                "C10.known_keys_accepted": exc is not None,
                "C10.activation_table": tab1 != want,
                "C10.registry_is_static_plus_active": reg1 != sorted(set(static) | {k for k, v in want.items() if v}),
                "C10.switch_does_not_touch_values": attrs0 != attrs1,
            }
            return res.get(ob, False), detail
        from funtracks.actions import UpdateNodeAttrs as UA
        from funtracks.user_actions import UserUpdateNodeAttrs as UUA

        n_hist = len(tr.action_history.undo_stack)
        try:
            (UUA if inp["user"] else UA)(tr, 1, {inp["key"]: 7})
        except Exception as e:
            reraise_model_gap(e)
            exc = e
        attrs1 = {n: dict(d) for n, d in tr.graph.nodes(data=True)}
        detail = f"flags={inp['flags']} update {inp['key']} -> exc={exc!r}"
        res = {
            "C10.managed_feature_refused": not isinstance(exc, ValueError),
            "C10.refused_update_changes_nothing": attrs0 != attrs1 or len(tr.action_history.undo_stack) != n_hist,
            "C10.free_attribute_updatable": exc is not None,
        }
        return res.get(ob, False), detail


def prebuilt_harness(ctx, cfg):
    """Tracks constructed WITH a pre-built feature registry: exactly the listed features that an
    annotator can manage are activated, none is recomputed, the registry is the one passed in."""
    import warnings

    import networkx as nx
    import numpy as np

    from funtracks.data_model import SolutionTracks
    from funtracks.features import FeatureDict, Time

    with_seg = cfg.get("seg", True)
    probe_g = nx.DiGraph()
    seg = np.zeros((2, 1, 2), dtype=np.int64)
    seg[0, 0, 0] = 1
    with warnings.catch_warnings():
        warnings.simplefilter("ignore")
        probe = SolutionTracks(probe_g, segmentation=seg.copy() if with_seg else None, ndim=3, time_attr=TK,
                               tracklet_attr=TID, lineage_attr=LID)
    avail = {k: f for k, (f, _) in probe.annotators.all_features.items()}
    chosen = [k for k in avail if ctx.choose(2, "in_" + k) == 1]
    ctx.input("seg", with_seg)
    ctx.input("chosen", chosen)
    feats = {TK: Time()}
    for k in chosen:
        feats[k] = avail[k]
    pos_key = POS if (POS in chosen or not with_seg) else None
    if not with_seg:
        from funtracks.features import Position

        feats[POS] = Position(axes=["y", "x"])
    fd = FeatureDict(features=feats, time_key=TK, position_key=pos_key, tracklet_key=TID if TID in chosen else None,
                     lineage_key=LID if LID in chosen else None)
    g = nx.DiGraph()
    marker = {k: (7 if k in (TID, LID) else ("marker", k)) for k in avail}
    g.add_node(1, **{TK: 0, POS: [0.0, 0.0], **marker})
    keys0 = sorted(fd.keys())
    with warnings.catch_warnings():
        warnings.simplefilter("ignore")
        tr = SolutionTracks(g, segmentation=seg.copy() if with_seg else None, ndim=3, features=fd)
    ctx.tag("constructed")
    tab = table(tr)
    # (an annotator falls back to its default key names for keys the registry does not define)
    ctx.oblige("C10.prebuilt_registry_activates_exactly_listed", tab == {k: (k in fd) for k in tab}, "C10")
    ctx.oblige("C10.prebuilt_registry_kept", sorted(tr.features.keys()) == keys0 and tr.features is fd, "C10")
    ctx.oblige("C10.prebuilt_registry_no_recompute", all(g.nodes[1][k] == marker[k] for k in avail), "C10")


def prebuilt_replay(f):
    from sx import rt

    ctx = rt.Ctx()
    chosen = f["inputs"]["chosen"]
    seq = iter(chosen)
    # re-run the same construction concretely: choose() answers follow the recorded selection
    import types

    res = {}

    class C:
        def choose(self, n, label=""):
            return 1 if label[3:] in chosen else 0

        def input(self, *a):
            pass

        def tag(self, *a):
            pass

        def oblige(self, name, claim, prop=None):
            res[name] = bool(claim)

    prebuilt_harness(C(), dict(seg=f["inputs"]["seg"]))
    return (res.get(f["obligation"]) is False), f"chosen={chosen} results={res}"
