"""C17: inferred column mappings (real code: funtracks.import_export._name_mapping).

Layer 1: per-helper contracts on abstract symbolic strings, arbitrary incoming mapping.
Layer 2: the whole infer_node_name_map / infer_edge_name_map pipeline on L symbolic columns.
Both run the CURRENT source of _name_mapping.py, compiled with dict displays/comprehensions
switched to SymDict (AST pass validated against the original module on every run).
The fuzzy matcher (difflib) is an oracle stub: a verdict quantifies over strings of any length
and over every behaviour the real matcher could show on them.
"""
from __future__ import annotations

import difflib
import itertools
import random

import z3

from sx.rt import And, Implies, Not, Or, PathAbort, Unsupported, zb
from sx.strs import SStr, SymDict, Universe, instrument, make_difflib_stub, plain

import funtracks.import_export._name_mapping as nm_real
from funtracks.import_export._utils import get_default_key_to_feature_mapping

PATH = nm_real.__file__
_CACHE = {}


def instrumented():
    import os

    key = os.path.getmtime(PATH)
    if _CACHE.get("key") != key:
        _CACHE["mod"] = instrument(PATH, "nm_instr")
        _CACHE["key"] = key
    return _CACHE["mod"]


def setup(ndim, required, L):
    feats = get_default_key_to_feature_mapping(ndim, display_name=False)
    node_f = {k: v for k, v in feats.items() if v.get("feature_type") == "node"}
    edge_f = {k: v for k, v in feats.items() if v.get("feature_type") == "edge"}
    consts = set(required) | {"seg_id"} | set(feats.keys())
    for f in feats.values():
        if f.get("num_values", 1) > 1:
            consts |= set(f.get("value_names", []))
        elif isinstance(f.get("display_name"), str):
            consts.add(f["display_name"])
    u = Universe(consts, L)
    return feats, node_f, edge_f, u


class Tok:
    def __init__(self, k):
        self.k = k

    def __repr__(self):
        return f"Tok({self.k})"


def columns(ctx, u, L):
    cols = [z3.Int(f"col{i}") for i in range(L)]
    ctx.add(u.axioms())
    for c in cols:
        ctx.add(And(c >= 0, c < len(u.names)))
    if L > 1:
        ctx.add(z3.Distinct(cols))
    # symmetry: fresh name j is used only if fresh name j-1 is used by an earlier column
    for i, c in enumerate(cols):
        for j in range(1, u.L):
            ctx.add(Implies(c == u.K + j, Or([cols[q] == u.K + j - 1 for q in range(i)])))
    if not ctx.feasible():
        raise PathAbort()
    ctx.input("columns", cols)
    ctx.input("universe", u.names)
    ctx.input("lowfresh", u.lowf)
    return cols, [SStr(u, c, f"col{i}") for i, c in enumerate(cols)]


# ------------------------------------------------------------------ layer 1: helper contracts
def helper_harness(ctx, cfg):
    helper, L, ndim = cfg["helper"], cfg["L"], cfg.get("ndim", 3)
    required = cfg.get("required", ["time"])
    feats, node_f, edge_f, u = setup(ndim, required, L)
    nm = instrumented()
    nm.difflib = make_difflib_stub(u)
    cols, props = columns(ctx, u, L)
    edge = cfg.get("edge", False)
    fset = edge_f if edge else node_f
    std = list(fset.keys()) if edge else nm_real.build_standard_fields(required)
    exact_targets = std if edge else std + [k for k in node_f if k not in std]
    all_keys = list(dict.fromkeys(std + list(fset.keys())))
    mapping = SymDict()
    pre = {}
    for k in all_keys:
        # step 1 of both pipelines starts from the empty mapping; the other helpers get an ARBITRARY one
        pre[k] = z3.BoolVal(False) if helper == "exact" else z3.Bool(f"pre_{k}")
        if helper != "exact":
            mapping.preset(k, Tok(k), pre[k])
    ctx.input("pre_keys", pre)
    ctx.input("helper", helper)
    ctx.input("cfg", dict(ndim=ndim, required=required, edge=edge))
    d2k = nm.build_display_name_mapping(fset)
    if helper == "exact":
        targets = exact_targets
        left = nm._match_exact(list(targets), list(props), mapping)
    elif helper == "fuzzy":
        targets = std
        left = nm._match_fuzzy(list(targets), list(props), mapping)
    elif helper == "display_exact":
        targets = list(fset.keys())
        left = nm._match_display_names_exact(list(props), d2k, mapping)
    elif helper == "display_fuzzy":
        targets = list(fset.keys())
        left = nm._match_display_names_fuzzy(list(props), d2k, mapping)
    elif helper == "remaining":
        custom = nm._map_remaining_to_self(list(props))
        ctx.tag("returned")
        items = custom.items()
        ok = len(items) == L and all(any(k is p for k, _ in items) for p in props) and all(k is v for k, v in items)
        ctx.oblige("C17.remaining_maps_each_to_itself", ok, "C17")
        return
    else:
        raise AssertionError(helper)
    ctx.tag("returned")
    pos = [next((i for i, p in enumerate(props) if p is x), None) for x in left]
    f1 = all(q is not None for q in pos) and pos == sorted(pos) and len(set(pos)) == len(pos)
    consumed = [p for i, p in enumerate(props) if i not in pos]
    ctx.tag(f"consumed:{len(consumed)}")
    f3 = []
    newvals = []
    keys_ok = True
    for e in mapping.ent:
        k, v, pres, written = e
        if pres is False:
            continue
        if isinstance(v, Tok):
            f3.append(z3.BoolVal(v.k == k))
            continue
        # a value written by the helper
        if not isinstance(k, str) or k not in targets:
            keys_ok = False
        if isinstance(k, str) and k in pre:
            f3.append(Not(pre[k]))  # the key must not have been present in the incoming mapping
        newvals.extend(v if isinstance(v, list) else [v])
    # values may be the column objects or equal strings (e.g. `mapping[field] = field`): compare by equality
    f2 = And([z3.BoolVal(len(newvals) == len(consumed))]
             + [z3.Sum([z3.If(u.index_of(x) == p.e, 1, 0) for x in newvals] + [z3.IntVal(0)])
                == (0 if i in pos else 1) for i, p in enumerate(props)])
    ctx.oblige("C17.returned_is_sublist_in_order", f1, "C17")
    ctx.oblige("C17.consumed_columns_used_exactly_once", f2, "C17")
    ctx.oblige("C17.assigned_keys_never_overwritten", And(f3), "C17")
    ctx.oblige("C17.only_target_keys_written", keys_ok, "C17")
    if helper == "exact":
        # exact names win: a column spelled like a free target key is consumed and mapped to that key
        cs = []
        for f in targets:
            fi = u.idx[f]
            for p in props:
                is_f = p.e == fi
                got = [e for e in mapping.ent if isinstance(e[0], str) and e[0] == f and e[2] is not False]
                mapped = (u.index_of(got[0][1]) == p.e) if got and not isinstance(got[0][1], list) else z3.BoolVal(False)
                cs.append(Implies(And(is_f, Not(pre[f])), mapped))
            for x in left:
                cs.append(Not(And(x.e == fi, Not(pre[f]))))
        ctx.oblige("C17.exact_names_win", And(cs), "C17")


# ------------------------------------------------------------------ layer 2: whole pipeline
def pipeline_harness(ctx, cfg):
    L, ndim = cfg["L"], cfg.get("ndim", 3)
    required = cfg.get("required", ["time"])
    edge = cfg.get("edge", False)
    feats, node_f, edge_f, u = setup(ndim, required, L)
    nm = instrumented()
    nm.difflib = make_difflib_stub(u)
    cols, props = columns(ctx, u, L)
    ctx.input("cfg", dict(ndim=ndim, required=required, edge=edge))
    if edge:
        m = nm.infer_edge_name_map(list(props), feats)
    else:
        m = nm.infer_node_name_map(list(props), list(required), feats)
    ctx.tag("returned")
    used = []
    keys = []
    for k, v in m.items():
        keys.append(k)
        used.extend(v if isinstance(v, list) else [v])
    once = And([z3.BoolVal(len(used) == L)]
               + [z3.Sum([z3.If(u.index_of(x) == p.e, 1, 0) for x in used] + [z3.IntVal(0)]) == 1 for p in props])
    ctx.oblige("C17.every_column_used_exactly_once", once, "C17")
    # exact names win for the required keys and seg_id (node pipeline) / feature keys (edge pipeline)
    targets = list(edge_f.keys()) if edge else nm_real.build_standard_fields(required)
    cs = []
    for f in targets:
        fi = u.idx[f]
        for p in props:
            val = None
            for k, v in m.items():
                if isinstance(k, str) and k == f:
                    val = v
            cs.append(Implies(p.e == fi, (u.index_of(val) == p.e) if val is not None and not isinstance(val, list)
                              else z3.BoolVal(False)))
    ctx.oblige("C17.exact_names_win", And(cs), "C17")
    ctx.witness("two_similar_columns", z3.BoolVal(True))


# ------------------------------------------------------------------ AST-pass validation + replay
def validate_instrumentation(seed=0, n=300):
    """translation validation of the AST pass: original vs instrumented module on concrete inputs
    (the repo's own test inputs + seeded random column lists), with the real difflib"""
    nm = instrumented()
    nm.difflib = difflib
    rnd = random.Random(seed)
    bad = []
    count = 0
    for ndim in (3, 4):
        feats = get_default_key_to_feature_mapping(ndim, display_name=False)
        pool = pool_for(feats)
        cases = [["t", "y", "x", "id", "parent_id"], ["time", "Area", "area"], ["time", "y", "x", "pos"],
                 ["Time", "Y", "X", "Circ", "Perim"], ["t", "z", "y", "x", "seg_id", "Tracklet ID"], [],
                 ["time", "major_axis", "minor_axis", "semi_minor_axis"], ["iou", "IoU", "Iou"]]
        for _ in range(n):
            cases.append(rnd.sample(pool, rnd.randint(0, 5)))
        for cols in cases:
            for req in (["time"], ["time", "id", "parent_id"]):
                a = nm_real.infer_node_name_map(list(cols), list(req), feats)
                b = plain(nm.infer_node_name_map(list(cols), list(req), feats))
                count += 1
                if a != b or list(a.keys()) != list(b.keys()):
                    bad.append((cols, req, a, b))
            a = nm_real.infer_edge_name_map(list(cols), feats)
            b = plain(nm.infer_edge_name_map(list(cols), feats))
            count += 1
            if a != b:
                bad.append((cols, "edge", a, b))
    return count, bad


def pool_for(feats):
    base = {"time", "id", "parent_id", "seg_id", "t", "T", "x", "y", "z", "X", "Y", "Z"} | set(feats.keys())
    for f in feats.values():
        if f.get("num_values", 1) > 1:
            base |= set(f.get("value_names", []))
        elif isinstance(f.get("display_name"), str):
            base.add(f["display_name"])
    out = set()
    for b in base:
        out |= {b, b.lower(), b.upper(), b.capitalize(), b + "_1", b + "s", "my_" + b, b[:-1] if len(b) > 2 else b,
                b.replace("_", " "), b.replace(" ", "_"), b + "a", b + "b"}
    out |= {"foo", "custom", "intensity", "label", "node", "frame", "posx", "posy", "centroid"}
    return sorted(o for o in out if o)


def partition_ok(cols, m):
    used = []
    for v in m.values():
        used.extend(v if isinstance(v, list) else [v])
    return sorted(used) == sorted(cols)


def exact_ok(cols, m, targets):
    return all(m.get(f) == f for f in targets if f in cols)


def replay(f):
    """A contract failure is not yet an alarm: search concrete column lists (constants of the model
    verbatim, fresh names instantiated from a dictionary of variants) through the REAL, uninstrumented
    pipeline with the real difflib; report only a run whose result is not a partition of its columns
    (or loses an exact name)."""
    inp = f["inputs"]
    cfg = inp["cfg"]
    names = inp["universe"]
    feats = get_default_key_to_feature_mapping(cfg["ndim"], display_name=False)
    pool = pool_for(feats)
    cols_idx = inp["columns"]
    fixed = [names[i] if not names[i].startswith("\x00") else None for i in cols_idx]
    rnd = random.Random(12345)
    required = cfg["required"]
    targets = (list(k for k, v in feats.items() if v.get("feature_type") == "edge") if cfg["edge"]
               else nm_real.build_standard_fields(required))
    tries = 0

    def run(cols):
        full = list(cols)
        if cfg["edge"]:
            m = nm_real.infer_edge_name_map(full, feats)
        else:
            m = nm_real.infer_node_name_map(full, list(required), feats)
        return m

    # candidates for the fresh names: near variants of every constant first (they trigger fuzzy matches)
    fresh_slots = [i for i, x in enumerate(fixed) if x is None]
    cand_lists = []
    for _ in fresh_slots:
        c = list(pool)
        rnd.shuffle(c)
        cand_lists.append(c)
    extra_sets = [[], ["time"], ["time", "id", "parent_id"]]

    def check(cols):
        if len(set(cols)) != len(cols):
            return None
        m = run(cols)
        if not partition_ok(cols, m):
            return f"columns={cols} required={required} -> {m}: not a partition of the columns"
        if not exact_ok(cols, m, targets):
            return f"columns={cols} required={required} -> {m}: a column spelled like a key is not mapped to it"
        return None

    budget = 60000
    if not fresh_slots:
        for ex in extra_sets:
            r = check([c for c in ex if c not in fixed] + fixed)
            if r:
                return True, r
        return False, f"columns {fixed}: real pipeline result is a partition"
    for combo in itertools.islice(itertools.product(*[c[:120] for c in cand_lists]), budget):
        cols = list(fixed)
        for slot, val in zip(fresh_slots, combo):
            cols[slot] = val
        tries += 1
        for ex in extra_sets[:1] if tries > 2000 else extra_sets:
            r = check([c for c in ex if c not in cols] + cols)
            if r:
                return True, r
    return False, f"no concrete instantiation of {fixed} among {tries} tries violates the property in the real pipeline"
