"""C14 (funtracks' own halves composed through an ideal store): export followed by import.

What runs, unmodified: export_to_geff / export_to_csv on a symbolic tracks object up to the writer
boundary (harness/export.py), then import_from_geff / tracks_from_df from the reader boundary on
(harness/importer.py), including the real geff structural AND tracklet / lineage validators, the
real geff.construct and the real SolutionTracks constructor with its detection of existing ids.

The STORE in between is ideal - the contract "what was written is what is read":
  GEFF  geff.write(graph, ...) followed by read_to_memory = node ids, edges and one value array per
        attribute of the written graph (attributes absent on a node = missing).
  CSV   DataFrame(rows)[header].to_csv followed by read_csv = the same table, an empty field reads
        back as a missing value.
What the zarr / geff / pandas writers and readers really do with the values (dtypes, text formatting,
json conversions) is OUTSIDE the claim; counterexamples are replayed end to end through the real files.
"""
from __future__ import annotations

import warnings

import networkx as nx
import numpy as np
import z3

from sx.arr import SArr
from sx.rt import reraise_model_gap  # noqa: F401
from sx.rt import And, Implies, Not, Or, SInt, SReal, Unsupported, same_value, tonum

from harness import export as X
from harness import importer as M
from harness.step import CUS, LID, POS, T as TK, TID, Snap


class _GraphStore:
    """ideal GEFF store filled from the graph object handed to geff.write"""

    def __init__(self, G, order=None):
        self.ids = [int(n) for n in G.nodes]
        if order == "reversed":
            # the order of the nodes in a store is the insertion order of the graph, which after an editing session
            # (delete + undo, re-added nodes) is arbitrary: this variant writes them in descending id order
            self.ids.reverse()
        self.edges = [(int(u), int(v)) for u, v in G.edges]
        keys = []
        for n in self.ids:
            for k in G.nodes[n]:
                if k not in keys:
                    keys.append(k)
        self.cols, self.missing = {}, {}
        for k in keys:
            vals, miss = [], []
            for n in self.ids:
                d = G.nodes[n]
                miss.append(k not in d or d[k] is None)
                vals.append(d.get(k))
            width = max((len(v) for v in vals if isinstance(v, (list, tuple))), default=0)
            real = any(isinstance(x, (float, SReal)) for v in vals
                       for x in (v if isinstance(v, (list, tuple)) else [v]))

            def cell(x):
                if x is None:
                    return z3.RealVal(0) if real else z3.IntVal(0)
                e = tonum(x)
                return z3.ToReal(e) if (real and z3.is_int(e)) else e

            if width:
                c = np.empty((len(vals), width), dtype=object)
                for i, v in enumerate(vals):
                    for a in range(width):
                        c[i, a] = cell(v[a] if v is not None else None)
            else:
                c = np.empty(len(vals), dtype=object)
                for i, v in enumerate(vals):
                    c[i] = cell(v)
            self.cols[k] = SArr(c, np.float64 if real else np.int64)
            if any(miss):
                self.missing[k] = np.array(miss, dtype=np.bool_)
        self.edge_cols = {}

    in_memory = M.Store.in_memory


def _compare(ctx, p, tr2, ids_map=None):
    """the re-imported tracks against the ORIGINAL state"""
    n = p.N
    g2 = tr2.graph
    ids_map = ids_map or {i: i for i in p.ids}
    present = [ids_map.get(p.ids[i]) in g2.nodes if ids_map.get(p.ids[i]) is not None else False for i in range(n)]
    ctx.oblige("C14.same_nodes", And([z3.BoolVal(present[i]) == p.sh0.al[i] for i in range(n)]), "C14")
    ctx.oblige("C14.same_edges", And([z3.BoolVal(bool(present[i] and present[j] and g2.has_edge(
        ids_map[p.ids[i]], ids_map[p.ids[j]]))) == p.sh0.A[i][j] for i in range(n) for j in range(n) if i != j]), "C14")
    tcs, pcs, kcs = [], [], []
    for i in range(n):
        if not present[i]:
            continue
        m = ids_map[p.ids[i]]
        tcs.append(same_value(tr2.get_time(m), SInt(p.t0[i])))
        pcs.append(same_value(list(tr2.get_position(m)), [SReal(z3.ToReal(e) if z3.is_int(e) else e) for e in p.pos0[i]]))
        kcs.append(same_value(tr2.get_track_id(m), SInt(p.tid0[i])))
    if getattr(p, "cus0", None):
        ccs = []
        for i in range(n):
            if present[i]:
                ccs.append(same_value(g2.nodes[ids_map[p.ids[i]]].get(CUS), SInt(p.cus0[i])))
        ctx.oblige("C14.same_loaded_features", And(ccs), "C14")
    ctx.oblige("C14.same_times", And(tcs), "C14")
    ctx.oblige("C14.same_positions", And(pcs), "C14")
    ctx.oblige("C14.same_track_ids", And(kcs), "C14")


def geff_harness(ctx, cfg):
    saved = X._install()
    X.CAP.clear()
    try:
        c = dict(cfg)
        c.update(seg=False, sym_pos=True, bound_lids=True)
        p = X.build(ctx, c)
        ctx.allow_realise = True  # track / lineage ids (1..N+1) reach geff's validators as arrays
        X.gx.export_to_geff(p.tr, X._Dir(), node_ids=None)
        w = dict(X.CAP["write"])
    finally:
        X._restore(saved)
        X.CAP.clear()
    G = w["graph"]
    store = _GraphStore(G, cfg.get("node_order"))
    axis = list(w.get("axis_names") or [])
    ctx.input("node_order", cfg.get("node_order"))
    ctx.input("op", "roundtrip_geff")
    ctx.input("select", None)
    ctx.input("pos", {str(k): v for k, v in p.pos0.items()})
    if not store.ids:
        ctx.tag("empty")
        return
    name_map = {"time": axis[0], "pos": axis[1:], "track_id": TID, "lineage_id": LID}
    node_features = None
    if cfg.get("custom"):
        name_map[CUS] = CUS
        node_features = {CUS: False}  # load, do not recompute
    ctx.input("name_map", name_map)
    M.install(store)
    exc = tr2 = None
    try:
        with warnings.catch_warnings():
            warnings.simplefilter("ignore")
            tr2 = M.gi.import_from_geff("store.zarr", node_name_map=dict(name_map), node_features=node_features)
    except Unsupported:
        raise
    except Exception as e:
        reraise_model_gap(e)
        exc = e
    finally:
        M.remove()
    ctx.tag("roundtrip")
    ctx.env.update(exc=repr(exc))
    ctx.oblige("C14.reimport_accepted", exc is None, "C14")
    if exc is None:
        _compare(ctx, p, tr2)


def csv_harness(ctx, cfg):
    saved = X._install()
    X.CAP.clear()
    try:
        c = dict(cfg)
        c.update(seg=False, sym_pos=True, bound_lids=True)
        p = X.build(ctx, c)
        ctx.allow_realise = True
        try:
            X.cx.export_to_csv(p.tr, X._Dir("/nonexistent/out.csv"), node_ids=None,
                               use_display_names=bool(cfg.get("display_names")))
        except KeyError:
            if len(list(p.tr.graph.nodes)) == 0:
                ctx.tag("empty")  # pandas refuses to select columns of a frame built from no rows (real behaviour)
                return
            raise
        rows, header = list(X.CAP["csv_rows"]), list(X.CAP["header"])
    finally:
        X._restore(saved)
        X.CAP.clear()
    if cfg.get("node_order") == "reversed":
        rows.reverse()
    ctx.input("node_order", cfg.get("node_order"))
    ctx.input("op", "roundtrip_csv")
    ctx.input("select", None)
    ctx.input("pos", {str(k): v for k, v in p.pos0.items()})
    if not rows:
        ctx.tag("empty")
        return
    # ideal CSV: the same table; an empty field reads back as missing
    data = {h: [(M.NA if (isinstance(r[h], str) and r[h] == "") else r[h]) for r in rows] for h in header}
    coords = [h for h in header if h in ("z", "y", "x")]
    if cfg.get("display_names"):
        # the mapping a user writes down from the file's header: display names / value names of the registered features
        f = p.tr.features
        name_map = {"id": "ID", "parent_id": "Parent ID", "time": f[f.time_key]["display_name"], "pos": coords,
                    "track_id": f[f.tracklet_key]["display_name"], "lineage_id": f[f.lineage_key]["display_name"]}
        if cfg.get("custom"):
            name_map[CUS] = f[CUS]["display_name"]
    else:
        name_map = {"id": "id", "parent_id": "parent_id", "time": "t", "pos": coords, "track_id": "track_id"}
    ctx.input("display_names", bool(cfg.get("display_names")))
    ctx.input("name_map", name_map)
    M.install_csv()
    exc = tr2 = None
    try:
        with warnings.catch_warnings():
            warnings.simplefilter("ignore")
            tr2 = M.ci.tracks_from_df(M._Frame(data), node_name_map=dict(name_map))
    except Unsupported:
        raise
    except Exception as e:
        reraise_model_gap(e)
        exc = e
    finally:
        M.remove_csv()
    ctx.tag("roundtrip")
    ctx.env.update(exc=repr(exc))
    ctx.oblige("C14.reimport_accepted", exc is None, "C14")
    if exc is None:
        _compare(ctx, p, tr2)


# ------------------------------------------------------------------ GEFF with segmentation
class _LazySeg:
    """what load_segmentation returns (a lazy array): ndim, shape, indexing, compute()"""

    def __init__(self, arr):
        self.arr = arr
        self.ndim, self.shape, self.dtype = arr.c.ndim, tuple(arr.c.shape), arr.dtype

    def __getitem__(self, k):
        return self.arr[k]

    def compute(self):
        return self.arr.copy()


def geff_seg_harness(ctx, cfg):
    """export_to_geff of tracks WITH a segmentation, then import_from_geff with the exported segmentation.

    The label array is realised (solver-guided case split over the finite label domain 0..N): the node positions and
    areas of a reachable state are the true centroids / pixel counts of the masks, which are rational functions of the
    mask bits; ids, times and the forest stay symbolic."""
    import funtracks.import_export._validation as V
    from harness.relabel import _has_seg_ids_at_coords

    saved = X._install()
    X.CAP.clear()
    N = cfg["N"]
    try:
        c = dict(cfg)
        c.update(seg=True, sym_pos=False, bound_lids=True, max_label=N)
        p = X.build(ctx, c)
        ctx.allow_realise = True
        shape = p.seg.c.shape
        # Inv item 5: every non-zero label is an alive node of that frame; every alive node has a pixel in its frame
        cs = []
        for idx in np.ndindex(*shape):
            cell = p.seg0[idx]
            cs.append(Or([cell == 0] + [And(cell == p.ids[i], p.sh0.al[i], p.t0[i] == idx[0]) for i in range(N)]))
        for i in range(N):
            cs.append(Implies(p.sh0.al[i], Or([And(p.seg0[idx] == p.ids[i], p.t0[i] == idx[0])
                                               for idx in np.ndindex(*shape)])))
        ctx.assume(And(cs))
        real = np.asarray(p.seg).astype(np.int64)
        ctx.input("seg", [int(x) for x in real.flat])
        pos0 = {}
        for i in range(N):
            where = np.argwhere(real == p.ids[i])
            if len(where):
                pos0[i] = [float(x) for x in where[:, 1:].mean(axis=0)]
                p.g.nattr[i][POS] = list(pos0[i])
                p.g.nattr[i]["area"] = float(len(where))
            X.gx.export_to_geff(p.tr, X._Dir(), node_ids=None)
        w = dict(X.CAP["write"])
        zarr_arr = X.CAP["zarr"].arr
    finally:
        X._restore(saved)
        X.CAP.clear()
    G = w["graph"]
    store = _GraphStore(G, cfg.get("node_order"))
    axis = list(w.get("axis_names") or [])
    ctx.input("node_order", cfg.get("node_order"))
    ctx.input("op", "roundtrip_geff_seg")
    ctx.input("select", None)
    if not store.ids:
        ctx.tag("empty")
        return
    # concrete columns stay concrete numpy arrays (coordinates: the importer converts them to pixel indices)
    for k, col in list(store.cols.items()):
        if all(z3.is_int_value(e) or z3.is_rational_value(e) for e in col.c.flat):
            vals = [float(e.as_fraction()) if not z3.is_int_value(e) else e.as_long() for e in col.c.flat]
            store.cols[k] = np.array(vals, dtype=col.dtype).reshape(col.c.shape)
    # the finding's handle: is the centroid pixel of the LAST stored node one of its own pixels?
    last = store.ids[-1]
    li = p.ids.index(last)
    cpix = tuple(int(x) for x in pos0[li])  # (funtracks: int(c / scale), scale 1)
    t_last = int(np.argwhere(real == last)[0][0])
    ctx.env.update(last_centroid_outside_mask=bool(real[(t_last,) + cpix] != last))
    ctx.input("last_centroid_outside_mask", bool(real[(t_last,) + cpix] != last))
    name_map = {"time": axis[0], "pos": axis[1:], "track_id": TID, "lineage_id": LID}
    ctx.input("name_map", name_map)
    M.install(store)
    keep = dict(ls=M.tb.load_segmentation, rd=M.tb.read_dims, has=V.has_seg_ids_at_coords)
    M.tb.load_segmentation = lambda seg: _LazySeg(zarr_arr)
    M.tb.read_dims = lambda seg: zarr_arr.c.ndim
    V.has_seg_ids_at_coords = _has_seg_ids_at_coords
    exc = tr2 = None
    try:
        with warnings.catch_warnings():
            warnings.simplefilter("ignore")
            tr2 = M.gi.import_from_geff("store.zarr", node_name_map=dict(name_map), segmentation_path="seg.zarr",
                                        scale=p.scale0)
    except Unsupported:
        raise
    except Exception as e:
        reraise_model_gap(e)
        exc = e
    finally:
        M.remove()
        M.tb.load_segmentation, M.tb.read_dims, V.has_seg_ids_at_coords = keep["ls"], keep["rd"], keep["has"]
    ctx.tag("roundtrip")
    if ctx.env["last_centroid_outside_mask"]:
        ctx.tag("witness:last_node_not_convex")
    ctx.env.update(exc=repr(exc))
    ctx.oblige("C14.reimport_accepted", exc is None, "C14")
    if exc is not None:
        return
    p.pos0 = {i: [z3.RealVal(x) for x in v] for i, v in pos0.items()}
    for i in range(N):
        p.pos0.setdefault(i, [z3.RealVal(0)] * (len(shape) - 1))
    _compare(ctx, p, tr2)
    s2 = tr2.segmentation
    if isinstance(s2, np.ndarray):
        from sx.arr import _as_sarr

        s2 = _as_sarr(s2)
    ok = isinstance(s2, SArr) and s2.c.shape == p.seg0.shape
    ctx.oblige("C14.same_segmentation", And([z3.BoolVal(bool(ok))] + ([a == b for a, b in zip(s2.c.flat, p.seg0.flat)]
                                                                    if ok else [])), "C14")


# ------------------------------------------------------------------ internal save format
class _JsonRefused(TypeError):
    pass


def _json_image(x):
    """contract of json.load o json.dump on the values funtracks hands over: dict keys become strings, tuples
    become lists, numbers / strings / booleans / None come back unchanged (symbolic numbers are numbers); any
    other object is refused by json.dump with TypeError.  (NaN / infinity and float formatting are outside.)"""
    if x is None or isinstance(x, (bool, int, float, str, SInt, SReal)):
        return x
    if isinstance(x, dict):
        out = {}
        for k, v in x.items():
            if isinstance(k, bool):
                k = "true" if k else "false"
            elif k is None:
                k = "null"
            elif isinstance(k, (int, float)):
                k = repr(k)
            elif not isinstance(k, str):
                raise _JsonRefused(f"keys must be str, int, float, bool or None, not {type(k).__name__}")
            out[k] = _json_image(v)
        return out
    if isinstance(x, (list, tuple)):
        return [_json_image(v) for v in x]
    raise _JsonRefused(f"Object of type {type(x).__name__} is not JSON serializable")


class _Files:
    """ideal directory: what save_tracks writes is what load_tracks reads"""

    def __init__(self):
        self.json, self.npy = {}, {}


class _FDir(X._Dir):
    def __init__(self, files, p="/nonexistent/saved"):
        super().__init__(p)
        self.files = files

    def __truediv__(self, o):
        return _FDir(self.files, self.p + "/" + str(o))

    def is_file(self):
        return self.p in self.files.json or self.p in self.files.npy


def _install_files(files):
    import types

    ifmt = X.ifmt

    class _F:
        def __init__(self, path):
            self.path = str(path)

        def __enter__(self):
            return self

        def __exit__(self, *a):
            return False

    def dump(data, f):
        files.json[f.path] = _json_image(data)

    def load(f):
        return _json_image(files.json[f.path])  # a fresh copy on every read (the image is idempotent)

    def save(path, arr):
        if not isinstance(arr, SArr):
            raise Unsupported("np.save of a non-modelled array")
        files.npy[str(path)] = arr.copy()

    def npload(path):
        return files.npy[str(path)].copy()

    from sx.rt import float_shim, int_shim

    ifmt.float, ifmt.int = float_shim, int_shim  # float(x) / int(x) of a symbolic number pass it through
    ifmt.open = lambda path, mode="r": _F(path)
    ifmt.json = types.SimpleNamespace(dump=dump, load=load)
    ifmt.np = types.SimpleNamespace(save=save, load=npload, ndarray=np.ndarray, integer=np.integer,
                                    floating=np.floating)


def internal_harness(ctx, cfg):
    """save_tracks, then load_tracks(solution=True), through an ideal directory (json / npy contract above)"""
    saved = X._install()
    X.CAP.clear()
    files = _Files()
    exc = tr2 = None
    try:
        c = dict(cfg)
        c.update(sym_pos=True, bound_lids=True)
        p = X.build(ctx, c)
        ctx.allow_realise = True
        g = p.g
        if cfg.get("pos_ndarray") and not cfg.get("multi_pos"):
            # positions as funtracks stores them: numpy arrays (here with symbolic entries), so that save_tracks'
            # own conversion of numpy values runs
            for s in range(p.N):
                a = np.empty(len(g.nattr[s][POS]), dtype=object)
                for q, v in enumerate(g.nattr[s][POS]):
                    a[q] = v
                g.nattr[s][POS] = a
        if cfg.get("scale") == "symbolic":
            # arbitrary positive voxel sizes (time scale included), handed over as Python floats would be
            p.scale_sym = [z3.Real(f"scale{a}") for a in range(len(cfg.get("shape", (3, 1, 1))))]
            for e in p.scale_sym:
                ctx.add(e > 0)
            p.scale0 = [SReal(e) for e in p.scale_sym]
            # the container a caller hands over: list, tuple or numpy array (the constructor stores it as given)
            kind = ("list", "tuple", "ndarray")[ctx.choose(3, "scale_container")]
            if kind == "list":
                p.tr.scale = list(p.scale0)
            elif kind == "tuple":
                p.tr.scale = tuple(p.scale0)
            else:
                a = np.empty(len(p.scale0), dtype=object)
                for q, v in enumerate(p.scale0):
                    a[q] = v
                p.tr.scale = a
            ctx.input("scale_container", kind)
            ctx.input("scale", p.scale_sym)
        fd0 = X._fd(p.tr)
        area0 = {}
        if p.seg is not None:
            for s in range(p.N):
                area0[s] = z3.Real(f"area{p.ids[s]}")
                g.nattr[s]["area"] = SReal(area0[s])
        iou0 = {}
        if cfg.get("iou") and p.seg is not None:
            # an edge feature that an editing session has enabled: stored values arbitrary reals, loaded - not recomputed
            p.tr.enable_features(["iou"], recompute=False)
            fd0 = X._fd(p.tr)
            for a in range(p.N):
                for b in range(p.N):
                    if a != b:
                        iou0[(a, b)] = z3.Real(f"iou{p.ids[a]}_{p.ids[b]}")
                        g.eattr[(a, b)] = {"iou": SReal(iou0[(a, b)])}
        ctx.input("iou", {f"{a},{b}": v for (a, b), v in iou0.items()})
        ctx.input("entry", cfg.get("entry"))
        ctx.input("node_order", cfg.get("node_order"))
        ctx.input("op", "roundtrip_internal")
        ctx.input("select", None)
        ctx.input("pos", {str(k): v for k, v in p.pos0.items()})
        ctx.input("area", {str(k): v for k, v in area0.items()})
        ctx.input("pos_ndarray", bool(cfg.get("pos_ndarray")))
        _install_files(files)
        d = _FDir(files)
        try:
            with warnings.catch_warnings():
                warnings.simplefilter("ignore")
                if cfg.get("entry") == "methods":
                    p.tr.save(d)  # deprecated method wrappers of the same format
                else:
                    X.ifmt.save_tracks(p.tr, d)
                if cfg.get("node_order") == "reversed":
                    # the order of "nodes" / "links" in graph.json is the insertion order of the graph, which after an
                    # editing session is arbitrary: this variant stores them in descending id order
                    for k, v in files.json.items():
                        if isinstance(v, dict) and "nodes" in v:
                            v["nodes"].reverse()
                            v["links"].reverse()
                if cfg.get("entry") == "methods":
                    tr2 = X.SolutionTracks.load(d, seg_required=p.seg is not None, solution=True)
                else:
                    tr2 = X.ifmt.load_tracks(d, seg_required=p.seg is not None, solution=True)
        except Unsupported:
            raise
        except Exception as e:
            reraise_model_gap(e)
            exc = e
    finally:
        X._restore(saved)
        for name in ("float", "int"):
            if name in vars(X.ifmt):
                delattr(X.ifmt, name)
        X.CAP.clear()
    ctx.tag("roundtrip")
    ctx.env.update(exc=repr(exc))
    ctx.oblige("C14.reimport_accepted", exc is None, "C14")
    if exc is not None:
        return
    if not any(True for _ in tr2.graph.nodes):
        ctx.tag("empty")
    _compare(ctx, p, tr2)
    n = p.N
    present = [p.ids[i] in tr2.graph.nodes for i in range(n)]
    ctx.oblige("C14.same_lineage_ids", And([same_value(tr2.get_lineage_id(p.ids[i]), SInt(p.lid0[i]))
                                             for i in range(n) if present[i]]), "C14")
    if p.seg is not None:
        ctx.oblige("C14.same_loaded_features", And([same_value(tr2.get_node_attr(p.ids[i], "area"), SReal(area0[i]))
                                                    for i in range(n) if present[i]]), "C14")
        s2 = tr2.segmentation
        ok = isinstance(s2, SArr) and s2.c.shape == p.seg0.shape and s2.dtype == p.seg.dtype
        ctx.oblige("C14.same_segmentation", And([z3.BoolVal(bool(ok))] + ([a == b for a, b in zip(s2.c.flat, p.seg0.flat)]
                                                                        if ok else [])), "C14")
    else:
        ctx.oblige("C14.same_segmentation", tr2.segmentation is None, "C14")
    if iou0:
        g2 = tr2.graph
        ctx.oblige("C14.same_loaded_edge_features",
                   And([same_value(g2.edges[p.ids[a], p.ids[b]].get("iou"), SReal(v)) for (a, b), v in iou0.items()
                        if g2.has_edge(p.ids[a], p.ids[b])]), "C14")
    sc2 = None if tr2.scale is None else list(tr2.scale)
    ctx.oblige("C14.same_scale", same_value(sc2, p.scale0), "C14")
    ctx.oblige("C14.same_registry", X._fd(tr2) == fd0 and tr2.ndim == p.tr.ndim, "C14")
    ctx.env.update(registry=repr(X._fd(tr2)), registry0=repr(fd0))
    # the lookups of the loaded object list the loaded ids (C06 at the reloaded state)
    ta2 = tr2.track_annotator
    cs = []
    for i in range(n):
        if present[i]:
            m = p.ids[i]
            cs.append(z3.BoolVal(any(m in v for v in ta2.tracklet_id_to_nodes.values())))
    ctx.oblige("C14.loaded_lookups_cover_nodes", And(cs), "C14")


# ------------------------------------------------------------------ replay through the real files
def replay(f):
    import shutil
    import tempfile
    from pathlib import Path

    import networkx as nx

    from harness.export_replay import build_real

    inp, ob = f["inputs"], f["obligation"]
    tmp = Path(tempfile.mkdtemp(prefix="verif_roundtrip_"))
    try:
        with warnings.catch_warnings():
            warnings.simplefilter("ignore")
            if inp["op"] == "roundtrip_internal":
                return _replay_internal(inp, ob, tmp)
            if inp["op"] == "roundtrip_geff_seg":
                return _replay_geff_seg(inp, ob, tmp)
            inp2 = dict(inp)
            inp2["seg"] = None
            tr = build_real(inp2)
            pos = {int(k): [M._num(x) for x in v] for k, v in inp["pos"].items()}
            for n in tr.graph.nodes:
                vals = pos[n - 1]
                if inp.get("multi_pos"):
                    tr.graph.nodes[n]["y"], tr.graph.nodes[n]["x"] = vals
                else:
                    tr.graph.nodes[n][POS] = list(vals)
            cus = inp.get("cus")
            if cus:
                tr.features[CUS] = {"feature_type": "node", "value_type": "int", "num_values": 1, "required": False,
                                    "default_value": None, "display_name": "Custom Score"}
                for n in tr.graph.nodes:
                    tr.graph.nodes[n][CUS] = int(cus[str(n - 1)])
            g0 = nx.DiGraph(tr.graph)
            a0 = {n: (tr.get_time(n), [float(x) for x in tr.get_position(n)], tr.get_track_id(n),
                      tr.graph.nodes[n].get(CUS)) for n in g0.nodes}
            exc = tr2 = None
            try:
                if inp["op"] == "roundtrip_geff":
                    from funtracks.import_export.geff._export import export_to_geff
                    from funtracks.import_export.geff._import import import_from_geff

                    export_to_geff(tr, tmp / "out")
                    tr2 = import_from_geff(tmp / "out" / "tracks", node_name_map=dict(inp["name_map"]),
                                           node_features={CUS: False} if cus else None)
                else:
                    import pandas as pd

                    from funtracks.import_export.csv._export import export_to_csv
                    from funtracks.import_export.csv._import import tracks_from_df

                    export_to_csv(tr, tmp / "out.csv", use_display_names=bool(inp.get("display_names")))
                    tr2 = tracks_from_df(pd.read_csv(tmp / "out.csv"), node_name_map=dict(inp["name_map"]))
            except Exception as e:
                reraise_model_gap(e)
                exc = e
        detail = f"original nodes={ {n: a0[n] for n in sorted(a0)} } edges={sorted(g0.edges)} name_map={inp['name_map']}" \
                 f" -> exc={exc!r}"
        if ob == "C14.reimport_accepted":
            return exc is not None, detail
        if exc is not None:
            return False, detail
        g2 = tr2.graph
        a2 = {n: (tr2.get_time(n), [float(x) for x in tr2.get_position(n)], tr2.get_track_id(n),
                  g2.nodes[n].get(CUS)) for n in g2.nodes}
        detail += f" reimported nodes={ {n: a2[n] for n in sorted(a2)} } edges={sorted(g2.edges)}"
        if ob == "C14.same_nodes":
            return sorted(g2.nodes) != sorted(g0.nodes), detail
        if ob == "C14.same_edges":
            return sorted(g2.edges) != sorted(g0.edges), detail
        common = [n for n in g0.nodes if n in g2.nodes]
        if ob == "C14.same_times":
            return any(not M._eq(a0[n][0], a2[n][0]) for n in common), detail
        if ob == "C14.same_positions":
            return any(not M._eq(a0[n][1], a2[n][1]) for n in common), detail
        if ob == "C14.same_track_ids":
            return any(a0[n][2] != a2[n][2] for n in common), detail
        if ob == "C14.same_loaded_features":
            return any(a0[n][3] != a2[n][3] for n in common), detail
        return False, "no oracle for " + ob
    finally:
        shutil.rmtree(tmp, ignore_errors=True)


def _replay_internal(inp, ob, tmp):
    import copy

    from funtracks.import_export.internal_format import load_tracks, save_tracks

    from harness.export_replay import build_real

    if inp.get("scale") is not None:
        inp = dict(inp)
        inp["scale"] = [float(M._num(x)) for x in inp["scale"]]
    tr = build_real(inp)
    if inp.get("scale") is not None and inp.get("scale_container") in ("tuple", "ndarray"):
        tr.scale = tuple(inp["scale"]) if inp["scale_container"] == "tuple" else np.array(inp["scale"], dtype=float)
    pos = {int(k): [M._num(x) for x in v] for k, v in inp["pos"].items()}
    area = {int(k): M._num(v) for k, v in (inp.get("area") or {}).items()}
    for n in tr.graph.nodes:
        vals = pos[n - 1]
        if inp.get("multi_pos"):
            tr.graph.nodes[n]["y"], tr.graph.nodes[n]["x"] = vals
        else:
            tr.graph.nodes[n][POS] = np.array(vals, dtype=float) if inp.get("pos_ndarray") else list(vals)
        if area:
            tr.graph.nodes[n]["area"] = area[n - 1]
    iou = {tuple(int(x) + 1 for x in k.split(",")): M._num(v) for k, v in (inp.get("iou") or {}).items()}
    if iou:
        tr.enable_features(["iou"], recompute=False)
        for e in tr.graph.edges:
            tr.graph.edges[e]["iou"] = iou[e]

    def fd(t):
        f = t.features
        return (copy.deepcopy({k: dict(v) for k, v in f.items()}), f.time_key, str(f.position_key), f.tracklet_key,
                f.lineage_key)

    def obs(t):
        return {n: dict(time=t.get_time(n), pos=[float(x) for x in t.get_position(n)], tid=t.get_track_id(n),
                        lid=t.get_lineage_id(n), area=t.get_node_attr(n, "area") if area else None)
                for n in t.graph.nodes}

    g0, a0, fd0 = nx.DiGraph(tr.graph), obs(tr), fd(tr)
    e0 = {e: tr.graph.edges[e].get("iou") for e in tr.graph.edges}
    seg0 = None if tr.segmentation is None else np.array(tr.segmentation)
    scale0 = copy.deepcopy(tr.scale)
    exc = tr2 = None
    try:
        if inp.get("entry") == "methods":
            from funtracks.data_model import SolutionTracks

            tr.save(tmp / "saved")
            tr2 = SolutionTracks.load(tmp / "saved", seg_required=seg0 is not None, solution=True)
        else:
            save_tracks(tr, tmp / "saved")
            tr2 = load_tracks(tmp / "saved", seg_required=seg0 is not None, solution=True)
    except Exception as e:
        reraise_model_gap(e)
        exc = e
    detail = f"original nodes={ {n: a0[n] for n in sorted(a0)} } edges={sorted(g0.edges)} scale={scale0} -> exc={exc!r}"
    if ob == "C14.reimport_accepted":
        return exc is not None, detail
    if exc is not None:
        return False, detail
    g2, a2 = tr2.graph, obs(tr2)
    detail += f" reloaded nodes={ {n: a2[n] for n in sorted(a2)} } edges={sorted(g2.edges)} scale={tr2.scale}"
    common = [n for n in g0.nodes if n in g2.nodes]
    key = {"C14.same_times": "time", "C14.same_positions": "pos", "C14.same_track_ids": "tid",
           "C14.same_lineage_ids": "lid", "C14.same_loaded_features": "area"}
    if ob == "C14.same_nodes":
        return sorted(g2.nodes) != sorted(g0.nodes), detail
    if ob == "C14.same_edges":
        return sorted(g2.edges) != sorted(g0.edges), detail
    if ob in key:
        return any(not M._eq(a0[n][key[ob]], a2[n][key[ob]]) for n in common), detail
    if ob == "C14.same_loaded_edge_features":
        return any(e in g2.edges and not M._eq(e0[e], g2.edges[e].get("iou")) for e in e0), \
            detail + f" iou {e0} -> { {e: g2.edges[e].get('iou') for e in g2.edges} }"
    if ob == "C14.same_segmentation":
        s2 = tr2.segmentation
        if seg0 is None or s2 is None:
            return (seg0 is None) != (s2 is None), detail
        return not (s2.shape == seg0.shape and s2.dtype == seg0.dtype and np.array_equal(s2, seg0)), \
            detail + f" seg {seg0.tolist()} -> {np.asarray(s2).tolist()} ({seg0.dtype} -> {s2.dtype})"
    if ob == "C14.same_scale":
        return not ((tr2.scale is None and scale0 is None) or (tr2.scale is not None and scale0 is not None
                                                                and M._eq(list(tr2.scale), list(scale0)))), detail
    if ob == "C14.same_registry":
        return fd(tr2) != fd0 or tr2.ndim != tr.ndim, detail + f" registry {fd0} -> {fd(tr2)}"
    if ob == "C14.loaded_lookups_cover_nodes":
        ta = tr2.track_annotator
        return any(not any(n in v for v in ta.tracklet_id_to_nodes.values()) for n in g2.nodes), detail
    return False, "no oracle for " + ob


def _replay_geff_seg(inp, ob, tmp):
    from funtracks.data_model import SolutionTracks
    from funtracks.import_export.geff._export import export_to_geff
    from funtracks.import_export.geff._import import import_from_geff

    N, shape = inp["N"], tuple(inp["shape"])
    seg = np.array(inp["seg"], dtype=np.dtype(inp.get("seg_dtype", "int64"))).reshape(shape)
    g = nx.DiGraph()
    for i in (reversed(range(N)) if inp.get("node_order") == "reversed" else range(N)):
        if inp["alive"][i]:
            g.add_node(i + 1, **{TK: inp["t"][i], TID: inp["tid"][i], LID: inp["lid"][i]})
    for i in range(N):
        for j in range(N):
            if inp["adj"][i][j]:
                g.add_edge(i + 1, j + 1)
    # positions and areas are computed from the masks by the real constructor (a reachable state)
    tr = SolutionTracks(g, segmentation=seg.copy(), ndim=len(shape), time_attr=TK, tracklet_attr=TID,
                        lineage_attr=LID, scale=inp.get("scale"))
    g0 = nx.DiGraph(tr.graph)
    a0 = {n: (tr.get_time(n), [float(x) for x in tr.get_position(n)], tr.get_track_id(n)) for n in g0.nodes}
    exc = tr2 = None
    try:
        export_to_geff(tr, tmp / "out")
        tr2 = import_from_geff(tmp / "out" / "tracks", node_name_map=dict(inp["name_map"]),
                               segmentation_path=tmp / "out" / "segmentation", scale=inp.get("scale"))
    except Exception as e:
        reraise_model_gap(e)
        exc = e
    detail = (f"original nodes={ {n: a0[n] for n in sorted(a0)} } edges={sorted(g0.edges)} seg={seg.tolist()} "
              f"name_map={inp['name_map']} -> exc={exc!r}")
    if ob == "C14.reimport_accepted":
        return exc is not None, detail
    if exc is not None:
        return False, detail
    g2 = tr2.graph
    a2 = {n: (tr2.get_time(n), [float(x) for x in tr2.get_position(n)], tr2.get_track_id(n)) for n in g2.nodes}
    detail += f" reimported nodes={ {n: a2[n] for n in sorted(a2)} } edges={sorted(g2.edges)}"
    common = [n for n in g0.nodes if n in g2.nodes]
    if ob == "C14.same_nodes":
        return sorted(g2.nodes) != sorted(g0.nodes), detail
    if ob == "C14.same_edges":
        return sorted(g2.edges) != sorted(g0.edges), detail
    if ob == "C14.same_times":
        return any(not M._eq(a0[n][0], a2[n][0]) for n in common), detail
    if ob == "C14.same_positions":
        return any(not M._eq(a0[n][1], a2[n][1]) for n in common), detail
    if ob == "C14.same_track_ids":
        return any(a0[n][2] != a2[n][2] for n in common), detail
    if ob == "C14.same_segmentation":
        s2 = np.asarray(tr2.segmentation)
        return not (s2.shape == seg.shape and np.array_equal(s2, seg)), detail + f" reimported seg={s2.tolist()}"
    return False, "no oracle for " + ob
