"""C14 (funtracks' own halves composed through an ideal store): export followed by import.

What runs, unmodified: export_to_geff / export_to_csv on a symbolic tracks object up to the writer
boundary (harness/export.py), then import_from_geff / tracks_from_df from the reader boundary on
(harness/importer.py), including the real geff structural AND tracklet / lineage validators, the
real geff.construct and the real SolutionTracks constructor with its detection of existing ids.

The STORE in between is ideal - the contract "what was written is what is read":
  GEFF  geff.write(graph, ...) followed by read_to_memory = node ids, edges and one value array per
        attribute of the written graph (attributes absent on a node = missing).
  CSV   DataFrame(rows)[header].to_csv followed by read_csv = the same table, an empty field reads
        back as a missing value.
What the zarr / geff / pandas writers and readers really do with the values (dtypes, text formatting,
json conversions) is OUTSIDE the claim; counterexamples are replayed end to end through the real files.
"""
from __future__ import annotations

import warnings

import numpy as np
import z3

from sx.arr import SArr
from sx.rt import And, Implies, Not, Or, SInt, SReal, Unsupported, same_value, tonum

from harness import export as X
from harness import importer as M
from harness.step import LID, POS, T as TK, TID, Snap


class _GraphStore:
    """ideal GEFF store filled from the graph object handed to geff.write"""

    def __init__(self, G, order=None):
        self.ids = [int(n) for n in G.nodes]
        if order == "reversed":
            # the order of the nodes in a store is the insertion order of the graph, which after an editing session
            # (delete + undo, re-added nodes) is arbitrary: this variant writes them in descending id order
            self.ids.reverse()
        self.edges = [(int(u), int(v)) for u, v in G.edges]
        keys = []
        for n in self.ids:
            for k in G.nodes[n]:
                if k not in keys:
                    keys.append(k)
        self.cols, self.missing = {}, {}
        for k in keys:
            vals, miss = [], []
            for n in self.ids:
                d = G.nodes[n]
                miss.append(k not in d or d[k] is None)
                vals.append(d.get(k))
            width = max((len(v) for v in vals if isinstance(v, (list, tuple))), default=0)
            real = any(isinstance(x, (float, SReal)) for v in vals
                       for x in (v if isinstance(v, (list, tuple)) else [v]))

            def cell(x):
                if x is None:
                    return z3.RealVal(0) if real else z3.IntVal(0)
                e = tonum(x)
                return z3.ToReal(e) if (real and z3.is_int(e)) else e

            if width:
                c = np.empty((len(vals), width), dtype=object)
                for i, v in enumerate(vals):
                    for a in range(width):
                        c[i, a] = cell(v[a] if v is not None else None)
            else:
                c = np.empty(len(vals), dtype=object)
                for i, v in enumerate(vals):
                    c[i] = cell(v)
            self.cols[k] = SArr(c, np.float64 if real else np.int64)
            if any(miss):
                self.missing[k] = np.array(miss, dtype=np.bool_)
        self.edge_cols = {}

    in_memory = M.Store.in_memory


def _compare(ctx, p, tr2, ids_map=None):
    """the re-imported tracks against the ORIGINAL state"""
    n = p.N
    g2 = tr2.graph
    ids_map = ids_map or {i: i for i in p.ids}
    present = [ids_map.get(p.ids[i]) in g2.nodes if ids_map.get(p.ids[i]) is not None else False for i in range(n)]
    ctx.oblige("C14.same_nodes", And([z3.BoolVal(present[i]) == p.sh0.al[i] for i in range(n)]), "C14")
    ctx.oblige("C14.same_edges", And([z3.BoolVal(bool(present[i] and present[j] and g2.has_edge(
        ids_map[p.ids[i]], ids_map[p.ids[j]]))) == p.sh0.A[i][j] for i in range(n) for j in range(n) if i != j]), "C14")
    tcs, pcs, kcs = [], [], []
    for i in range(n):
        if not present[i]:
            continue
        m = ids_map[p.ids[i]]
        tcs.append(same_value(tr2.get_time(m), SInt(p.t0[i])))
        pcs.append(same_value(list(tr2.get_position(m)), [SReal(z3.ToReal(e) if z3.is_int(e) else e) for e in p.pos0[i]]))
        kcs.append(same_value(tr2.get_track_id(m), SInt(p.tid0[i])))
    ctx.oblige("C14.same_times", And(tcs), "C14")
    ctx.oblige("C14.same_positions", And(pcs), "C14")
    ctx.oblige("C14.same_track_ids", And(kcs), "C14")


def geff_harness(ctx, cfg):
    saved = X._install()
    X.CAP.clear()
    try:
        c = dict(cfg)
        c.update(seg=False, sym_pos=True, bound_lids=True)
        p = X.build(ctx, c)
        ctx.allow_realise = True  # track / lineage ids (1..N+1) reach geff's validators as arrays
        X.gx.export_to_geff(p.tr, X._Dir(), node_ids=None)
        w = dict(X.CAP["write"])
    finally:
        X._restore(saved)
        X.CAP.clear()
    G = w["graph"]
    store = _GraphStore(G, cfg.get("node_order"))
    axis = list(w.get("axis_names") or [])
    ctx.input("node_order", cfg.get("node_order"))
    ctx.input("op", "roundtrip_geff")
    ctx.input("select", None)
    ctx.input("pos", {str(k): v for k, v in p.pos0.items()})
    if not store.ids:
        ctx.tag("empty")
        return
    name_map = {"time": axis[0], "pos": axis[1:], "track_id": TID, "lineage_id": LID}
    ctx.input("name_map", name_map)
    M.install(store)
    exc = tr2 = None
    try:
        with warnings.catch_warnings():
            warnings.simplefilter("ignore")
            tr2 = M.gi.import_from_geff("store.zarr", node_name_map=dict(name_map))
    except Unsupported:
        raise
    except Exception as e:
        exc = e
    finally:
        M.remove()
    ctx.tag("roundtrip")
    ctx.env.update(exc=repr(exc))
    ctx.oblige("C14.reimport_accepted", exc is None, "C14")
    if exc is None:
        _compare(ctx, p, tr2)


def csv_harness(ctx, cfg):
    saved = X._install()
    X.CAP.clear()
    try:
        c = dict(cfg)
        c.update(seg=False, sym_pos=True, bound_lids=True)
        p = X.build(ctx, c)
        ctx.allow_realise = True
        try:
            X.cx.export_to_csv(p.tr, X._Dir("/nonexistent/out.csv"), node_ids=None)
        except KeyError:
            if len(list(p.tr.graph.nodes)) == 0:
                ctx.tag("empty")  # pandas refuses to select columns of a frame built from no rows (real behaviour)
                return
            raise
        rows, header = list(X.CAP["csv_rows"]), list(X.CAP["header"])
    finally:
        X._restore(saved)
        X.CAP.clear()
    if cfg.get("node_order") == "reversed":
        rows.reverse()
    ctx.input("node_order", cfg.get("node_order"))
    ctx.input("op", "roundtrip_csv")
    ctx.input("select", None)
    ctx.input("pos", {str(k): v for k, v in p.pos0.items()})
    if not rows:
        ctx.tag("empty")
        return
    # ideal CSV: the same table; an empty field reads back as missing
    data = {h: [(M.NA if (isinstance(r[h], str) and r[h] == "") else r[h]) for r in rows] for h in header}
    coords = [h for h in header if h in ("z", "y", "x")]
    name_map = {"id": "id", "parent_id": "parent_id", "time": "t", "pos": coords, "track_id": "track_id"}
    ctx.input("name_map", name_map)
    M.install_csv()
    exc = tr2 = None
    try:
        with warnings.catch_warnings():
            warnings.simplefilter("ignore")
            tr2 = M.ci.tracks_from_df(M._Frame(data), node_name_map=dict(name_map))
    except Unsupported:
        raise
    except Exception as e:
        exc = e
    finally:
        M.remove_csv()
    ctx.tag("roundtrip")
    ctx.env.update(exc=repr(exc))
    ctx.oblige("C14.reimport_accepted", exc is None, "C14")
    if exc is None:
        _compare(ctx, p, tr2)


# ------------------------------------------------------------------ replay through the real files
def replay(f):
    import shutil
    import tempfile
    from pathlib import Path

    import networkx as nx

    from harness.export_replay import build_real

    inp, ob = f["inputs"], f["obligation"]
    tmp = Path(tempfile.mkdtemp(prefix="verif_roundtrip_"))
    try:
        with warnings.catch_warnings():
            warnings.simplefilter("ignore")
            inp2 = dict(inp)
            inp2["seg"] = None
            tr = build_real(inp2)
            pos = {int(k): [M._num(x) for x in v] for k, v in inp["pos"].items()}
            for n in tr.graph.nodes:
                vals = pos[n - 1]
                if inp.get("multi_pos"):
                    tr.graph.nodes[n]["y"], tr.graph.nodes[n]["x"] = vals
                else:
                    tr.graph.nodes[n][POS] = list(vals)
            g0 = nx.DiGraph(tr.graph)
            a0 = {n: (tr.get_time(n), [float(x) for x in tr.get_position(n)], tr.get_track_id(n)) for n in g0.nodes}
            exc = tr2 = None
            try:
                if inp["op"] == "roundtrip_geff":
                    from funtracks.import_export.geff._export import export_to_geff
                    from funtracks.import_export.geff._import import import_from_geff

                    export_to_geff(tr, tmp / "out")
                    tr2 = import_from_geff(tmp / "out" / "tracks", node_name_map=dict(inp["name_map"]))
                else:
                    import pandas as pd

                    from funtracks.import_export.csv._export import export_to_csv
                    from funtracks.import_export.csv._import import tracks_from_df

                    export_to_csv(tr, tmp / "out.csv")
                    tr2 = tracks_from_df(pd.read_csv(tmp / "out.csv"), node_name_map=dict(inp["name_map"]))
            except Exception as e:
                exc = e
        detail = f"original nodes={ {n: a0[n] for n in sorted(a0)} } edges={sorted(g0.edges)} name_map={inp['name_map']}" \
                 f" -> exc={exc!r}"
        if ob == "C14.reimport_accepted":
            return exc is not None, detail
        if exc is not None:
            return False, detail
        g2 = tr2.graph
        a2 = {n: (tr2.get_time(n), [float(x) for x in tr2.get_position(n)], tr2.get_track_id(n)) for n in g2.nodes}
        detail += f" reimported nodes={ {n: a2[n] for n in sorted(a2)} } edges={sorted(g2.edges)}"
        if ob == "C14.same_nodes":
            return sorted(g2.nodes) != sorted(g0.nodes), detail
        if ob == "C14.same_edges":
            return sorted(g2.edges) != sorted(g0.edges), detail
        common = [n for n in g0.nodes if n in g2.nodes]
        if ob == "C14.same_times":
            return any(not M._eq(a0[n][0], a2[n][0]) for n in common), detail
        if ob == "C14.same_positions":
            return any(not M._eq(a0[n][1], a2[n][1]) for n in common), detail
        if ob == "C14.same_track_ids":
            return any(a0[n][2] != a2[n][2] for n in common), detail
        return False, "no oracle for " + ob
    finally:
        shutil.rmtree(tmp, ignore_errors=True)
