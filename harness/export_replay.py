"""Replay of export-harness counterexamples END TO END on the unmodified stack: real exporter,
real pandas / zarr / geff writers into a temporary directory, outputs read back."""
from __future__ import annotations

import copy
import shutil
import tempfile
import warnings
from pathlib import Path

import networkx as nx
import numpy as np

from harness.step_replay import LID, POS, T, TID, same_graph, same_history, same_lookups, snapshot, _brief


def build_real(inp):
    from funtracks.data_model import SolutionTracks

    N = inp["N"]
    shape = tuple(inp["shape"])
    seg = None if inp.get("seg") is None else np.array(inp["seg"], dtype=np.dtype(inp.get("seg_dtype", "int64"))).reshape(shape)
    g = nx.DiGraph()
    for i in (reversed(range(N)) if inp.get("node_order") == "reversed" else range(N)):
        if inp["alive"][i]:
            d = {T: inp["t"][i], TID: inp["tid"][i], LID: inp["lid"][i]}
            if inp.get("multi_pos"):
                d["y"], d["x"] = float(i), float(2 * i)
            elif len(shape) == 4:
                d[POS] = [float(i), float(2 * i), float(3 * i)]
            else:
                d[POS] = [float(i), float(2 * i)]
            if seg is not None:
                d["area"] = float(i + 1)
            g.add_node(i + 1, **d)
    for i in range(N):
        for j in range(N):
            if inp["adj"][i][j]:
                g.add_edge(i + 1, j + 1)
    tr = SolutionTracks(g, segmentation=seg, ndim=len(shape), time_attr=T, tracklet_attr=TID, lineage_attr=LID,
                        pos_attr=["y", "x"] if inp.get("multi_pos") and seg is None else None,
                        scale=inp.get("scale"))
    return tr


def ancestors_closed(g, sel):
    keep = set(sel)
    for s in sel:
        keep |= nx.ancestors(g, s)
    return keep


def replay(f):
    import zarr

    from funtracks.import_export.csv._export import export_to_csv
    from funtracks.import_export.geff._export import export_to_geff
    from funtracks.import_export.internal_format import save_tracks

    inp, ob = f["inputs"], f["obligation"]
    tmp = Path(tempfile.mkdtemp(prefix="verif_export_"))
    try:
        with warnings.catch_warnings():
            warnings.simplefilter("ignore")
            tr = build_real(inp)
            g0 = tr.graph.copy()
            S0 = snapshot(tr)
            raw0 = {n: copy.deepcopy(dict(d)) for n, d in tr.graph.nodes(data=True)}
            fd0 = (copy.deepcopy({k: dict(v) for k, v in tr.features.items()}), tr.features.time_key,
                   str(tr.features.position_key), tr.features.tracklet_key, tr.features.lineage_key)
            scale0 = copy.deepcopy(tr.scale)
            emitted = []
            tr.refresh.connect(lambda *a: emitted.append(a))
            sel = None if inp["select"] is None else set(inp["select"])
            op = inp["op"]
            cfg = inp.get("cfg", {})
            exported_nodes = exported_edges = out_seg = None
            err = None
            try:
                if op == "geff":
                    export_to_geff(tr, tmp / "out", node_ids=sel)
                    z = zarr.open((tmp / "out" / "tracks").as_posix(), mode="r")
                    exported_nodes = {int(x) for x in z["nodes/ids"][:]}
                    exported_edges = {(int(a), int(b)) for a, b in z["edges/ids"][:]} if "edges/ids" in z else set()
                    if tr.segmentation is not None:
                        out_seg = zarr.open(str(tmp / "out" / "segmentation"), mode="r")[:]
                elif op == "csv":
                    import pandas as pd

                    export_to_csv(tr, tmp / "out.csv", node_ids=sel, use_display_names=cfg.get("display_names", False),
                                  export_seg=cfg.get("export_seg", False), seg_path=tmp / "seg.tif")
                    df = pd.read_csv(tmp / "out.csv")
                    idc, pc = ("ID", "Parent ID") if cfg.get("display_names") else ("id", "parent_id")
                    exported_nodes = {int(x) for x in df[idc]}
                    exported_edges = {(int(p), int(n)) for n, p in zip(df[idc], df[pc]) if not pd.isna(p)}
                elif op == "save":
                    save_tracks(tr, tmp / "saved")
                elif op == "queries":
                    for n in list(tr.graph.nodes()):
                        tr.predecessors(n), tr.successors(n), tr.get_time(n), tr.get_position(n), tr.get_pixels(n)
                        tr.get_times([n]), tr.get_positions([n]), tr.get_positions([n], incl_time=True)
                        tr.get_position(n, incl_time=True), tr.get_node_attr(n, TID), tr.get_nodes_attr([n], T)
                        tr.in_degree(np.array([n])), tr.out_degree(np.array([n]))
                        tr.get_track_id(n), tr.get_lineage_id(n)
                        tr.get_track_neighbors(tr.get_track_id(n), tr.get_time(n))
                        tr.has_track_id_at_time(tr.get_track_id(n), tr.get_time(n))
                    tr.nodes(), tr.edges(), tr.in_degree(), tr.out_degree(), tr.get_next_track_id()
                    tr.get_available_features(), tr.get_next_lineage_id()
                    _ = tr.max_track_id, tr.track_id_to_node
            except KeyError as e:
                err = e
            S1 = snapshot(tr)
            detail = f"op={op} select={inp['select']} pre={_brief(S0)} exported_nodes={exported_nodes} " \
                     f"exported_edges={exported_edges} err={err!r}"
            if ob.startswith("C16."):
                name = ob[4:]
                raw1 = {n: dict(d) for n, d in tr.graph.nodes(data=True)}
                table = {
                    "graph_unchanged": same_graph(S0, S1),
                    "attrs_unchanged": _same_raw(raw0, raw1),
                    "lookups_unchanged": same_lookups(S0, S1),
                    "history_unchanged": same_history(S0, S1) and not emitted,
                    "registry_unchanged": fd0 == ({k: dict(v) for k, v in tr.features.items()}, tr.features.time_key,
                                                  str(tr.features.position_key), tr.features.tracklet_key,
                                                  tr.features.lineage_key) and S0["counter"] == S1["counter"],
                    "scale_unchanged": _same_scale(scale0, tr.scale),
                    "segmentation_unchanged": (S0["seg"] is None and S1["seg"] is None) or np.array_equal(
                        S0["seg"], S1["seg"]),
                }
                if name in table:
                    return (not table[name]), detail + f" scale {scale0!r} -> {tr.scale!r}"
                return False, "no oracle"
            if err is not None:
                return False, detail
            keep = set(g0.nodes()) if sel is None else ancestors_closed(g0, sel & set(g0.nodes()))
            if ob == "C15.nodes_exact":
                return exported_nodes != keep, detail + f" want={keep}"
            if ob == "C15.edges_exact":
                want = {(u, v) for u, v in g0.edges() if u in keep and v in keep}
                return exported_edges != want, detail + f" want={want}"
            if ob == "C15.no_missing_parent":
                bad = [n for n in exported_nodes for q in g0.predecessors(n) if q not in exported_nodes]
                return bool(bad), detail + f" nodes with missing parent {bad}"
            if ob == "C15.segmentation_masks_exact" and op == "geff":
                want = S0["seg"].copy()
                if sel is not None:
                    want[~np.isin(want, list(keep))] = 0
                return (not np.array_equal(out_seg, want)), detail + f" seg={out_seg.tolist()} want={want.tolist()}"
            if ob == "C15.segmentation_masks_exact" and op == "csv":
                import tifffile

                out = tifffile.imread(tmp / "seg.tif")
                want = np.zeros_like(S0["seg"])
                for n in keep:
                    want[S0["seg"] == n] = g0.nodes[n][TID]
                return (not np.array_equal(out, want)), detail + f" seg={out.tolist()} want={want.tolist()}"
            return False, "no oracle"
    finally:
        shutil.rmtree(tmp, ignore_errors=True)


def _same_scale(a, b):
    if a is None or b is None:
        return a is None and b is None
    return list(a) == list(b)


def _same_raw(a, b):
    if a.keys() != b.keys():
        return False
    for n in a:
        if a[n].keys() != b[n].keys():
            return False
        for k in a[n]:
            x, y = a[n][k], b[n][k]
            try:
                if isinstance(x, np.ndarray) or isinstance(y, np.ndarray):
                    if not np.array_equal(x, y):
                        return False
                elif x != y:
                    return False
            except Exception:
                return False
    return True
