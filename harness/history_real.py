"""History lemma for the properties that say "... after every accepted user action, UNDO or REDO" (C03 - C09).

Their one-step checks establish the property after an edit from any Inv-state; undo and redo are covered by
C01 (exact inverses) AND the history lemma of C02: the real ActionHistory applies an inverse only in the
post-state of its action, so undo / redo only ever revisit states an edit produced.  The lemma is decided by the
symbolic history-algebra run (harness/history.py: every op sequence within the bound, abstract invertible edits).

This module makes a failing lemma a finding of the property that RESTS on it - but only with a demonstration on
the real code: the abstract op sequence returned by the engine (edit / undo / redo schedule) is instantiated with
concrete user actions on a small real SolutionTracks (with segmentation, area and IoU enabled); after every
operation the property's own concrete oracle (forest shape, id partitions, lookups, label correspondence,
measurements, IoU) judges the real state.  Reported for property P only if P's oracle fails on the real stack;
otherwise the lemma failure stays with C02 (and P's run ends inconclusive, never a pass: its undo/redo part is
not established).
"""
from __future__ import annotations

import itertools
import warnings

import networkx as nx
import numpy as np

from harness import history

PROPS = ("C03", "C04", "C05", "C06", "C07", "C08", "C09")


def harness(ctx, cfg):
    history.harness(ctx, cfg)


def _fixture():
    """1(t0) -> 3(t1) -> 4(t2);  2(t0), 5(t2) isolated; every node a two-pixel mask on a 3 x 2 x 6 array"""
    from funtracks.data_model import SolutionTracks

    seg = np.zeros((3, 2, 6), dtype=np.int64)
    seg[0, 0, 0:2] = 1
    seg[0, 1, 3:5] = 2
    seg[1, 0, 0:2] = 3
    seg[2, 0, 1:3] = 4
    seg[2, 1, 3:5] = 5
    from harness.step_replay import LID, T, TID

    g = nx.DiGraph()
    for n, t in ((1, 0), (2, 0), (3, 1), (4, 2), (5, 2)):
        g.add_node(n, **{T: t})
    g.add_edges_from([(1, 3), (3, 4)])
    tr = SolutionTracks(g, segmentation=seg, ndim=3, time_attr=T, tracklet_attr=TID, lineage_attr=LID)
    tr.enable_features(["iou"])
    return tr


def _paint(tr, cells, value, cur_track):
    from funtracks import user_actions as U

    seg = tr.segmentation
    groups = {}
    for c in cells:
        groups.setdefault(int(seg[c]), []).append(c)
    updated = [(tuple(np.array([c[d] for c in cs]) for d in range(seg.ndim)), old) for old, cs in groups.items()]
    before = seg.copy()
    for c in cells:
        seg[c] = value
    try:
        return U.UserUpdateSegmentation(tr, value, updated, cur_track, force=False)
    except Exception:
        seg[...] = before
        raise


def _pool():
    from funtracks import user_actions as U

    return [
        ("UserDeleteEdge((1,3))", lambda tr: U.UserDeleteEdge(tr, (1, 3))),
        ("UserAddEdge((2,3))", lambda tr: U.UserAddEdge(tr, (2, 3))),
        ("UserAddEdge((3,5))", lambda tr: U.UserAddEdge(tr, (3, 5))),
        ("UserDeleteNode(3)", lambda tr: U.UserDeleteNode(tr, 3)),
        ("UserDeleteEdge((3,4))", lambda tr: U.UserDeleteEdge(tr, (3, 4))),
        ("UserAddEdge((1,3))", lambda tr: U.UserAddEdge(tr, (1, 3))),
        ("paint new label 6 in frame 1", lambda tr: _paint(tr, [(1, 1, 4), (1, 1, 5)], 6, tr.get_next_track_id())),
        ("erase node 4", lambda tr: _paint(tr, [(2, 0, 1), (2, 0, 2)], 0, 1)),
        ("grow node 3 over background", lambda tr: _paint(tr, [(1, 0, 2)], 3, 1)),
    ]


def _oracle(prop, tr):
    from harness import seg_replay as SR
    from harness import step_replay as R

    g = tr.graph
    if prop == "C03":
        for n in g.nodes:
            if g.in_degree(n) > 1:
                return False, f"node {n} has parents {sorted(g.predecessors(n))}"
            if g.out_degree(n) > 2:
                return False, f"node {n} has children {sorted(g.successors(n))}"
        for u, v in g.edges:
            if not g.nodes[u][R.T] < g.nodes[v][R.T]:
                return False, f"edge {(u, v)} is not forward in time"
        return True, ""
    if prop == "C04":
        return R.partition_ok(g, R.TID, R.tracklet_components(g)), "track ids do not label the unbranched segments"
    if prop == "C05":
        return (R.partition_ok(g, R.LID, list(nx.weakly_connected_components(g))),
                "lineage ids do not label the connected components")
    if prop == "C06":
        return R.lookups_ok(tr)
    if prop == "C07":
        return SR.corr_ok(tr)
    if prop == "C08":
        return SR.rp_ok(tr, ["area", "pos"])
    if prop == "C09":
        return SR.iou_ok(tr)
    raise AssertionError(prop)


def _run(prop, ops, choice, pool):
    """one concrete instantiation; returns (violated, detail) or None if an edit of the choice is refused"""
    tr = _fixture()
    it = iter(choice)
    trace = []
    ok0, why0 = _oracle(prop, tr)
    if not ok0:
        raise AssertionError(f"fixture of the history replay does not satisfy {prop}: {why0}")

    def judge(what):
        try:
            ok, why = _oracle(prop, tr)
        except Exception:  # the oracle cannot read this state: not judged (never a violation by itself)
            return None
        if not ok:
            return True, (f"real SolutionTracks 1->3->4, 2, 5 (two-pixel masks); history {trace}: after {what}: {why}; "
                          f"edges now {sorted(tr.graph.edges)}")
        return None

    for op in ops:
        if op == "edit":
            name, mk = pool[next(it)]
            try:
                mk(tr)
            except Exception:
                return None
            trace.append(name)
        else:
            try:
                (tr.undo if op == "undo" else tr.redo)()
            except Exception as e:
                trace.append(f"{op} raised {type(e).__name__}")
                r = judge(trace[-1])
                return r if r else (False, "")
            trace.append(op)
        r = judge(trace[-1])
        if r:
            return r
    # the closing phase of the symbolic run: redo to the end of the timeline, then undo all the way
    for op, fn in (("redo", tr.redo), ("undo", tr.undo)):
        for _ in range(4 * len(ops) + 8):
            try:
                if not fn():
                    break
            except Exception as e:
                trace.append(f"{op} raised {type(e).__name__}")
                r = judge(trace[-1])
                return r if r else (False, "")
            trace.append(op)
            r = judge(trace[-1])
            if r:
                return r
    return False, ""


def replay_for(prop, budget=1500):
    def replay(f):
        ops = list(f["inputs"]["ops"])
        k = ops.count("edit")
        pool = _pool()
        tried = 0
        refused = set()
        with warnings.catch_warnings():
            warnings.simplefilter("ignore")
            for choice in itertools.product(range(len(pool)), repeat=k):
                if any(choice[:i] in refused for i in range(1, k + 1)):
                    continue
                if len(set(choice)) < len(choice) and k <= len(pool):
                    continue  # repeated edits add nothing here
                r = _run(prop, ops, choice, pool)
                tried += 1
                if r is None:
                    # remember the shortest refused prefix (found by re-running prefixes is not needed: any choice with
                    # the same first refused edit fails the same way only if the earlier ops agree, so keep it simple)
                    continue
                if r[0]:
                    return True, r[1]
                if tried >= budget:
                    break
        return False, f"ops={ops}: {tried} concrete instantiations on the real stack keep {prop}"

    return replay
