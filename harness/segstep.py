"""Step harness on tracks WITH a segmentation (DESIGN C07 C08 C09, and C01/C11/C20 with arrays).

Real code executed: UserUpdateSegmentation (+ nested UserDeleteNode / UpdateNodeSeg / UserAddNode),
UserAddNode/UserDeleteNode with pixels, the edge actions with the IoU feature enabled,
RegionpropsAnnotator / EdgeAnnotator update + compute, Tracks.get_pixels/set_pixels.
Environment stubs (part of the claim): regionprops_extended and _compute_ious (contract stubs).
"""
from __future__ import annotations

import networkx as nx
import numpy as np
import z3

from sx import inv as I
from sx.arr import SArr, _as_sarr
from sx.graph import SymDiGraph
from sx.maps import LazyIdMap
from sx.rt import reraise_model_gap  # noqa: F401
from sx.rt import (And, If, Implies, Not, Or, PathAbort, SBool, SInt, SReal, Unsupported, count, cur, int_shim,
                   same_value, toint, unwrap, zb)

from harness import step as S
from harness.step import CUS, LID, POS, T as TK, TID, Snap, Tok, _Hist

import funtracks.annotators._edge_annotator as _ea
import funtracks.annotators._regionprops_annotator as _rpa
import funtracks.data_model.tracks as _tracks_mod

_tracks_mod.int = int_shim

from funtracks.data_model import SolutionTracks  # noqa: E402
from funtracks.user_actions import (UserAddEdge, UserAddNode, UserDeleteEdge, UserDeleteNode,  # noqa: E402
                                    UserSwapPredecessors, UserUpdateSegmentation)

RP_ATTRS = {"area": 1, "centroid": None, "axes": None, "circularity": 1, "perimeter": 1}  # None = one per axis
KEY_TO_RP = {"pos": "centroid", "area": "area", "ellipse_axis_radii": "axes", "circularity": "circularity",
             "perimeter": "perimeter"}
_UF = {}


def rp_uf(attr, k, ncells, nspacing):
    key = (attr, k, ncells, nspacing)
    if key not in _UF:
        _UF[key] = z3.Function(f"RP_{attr}{k}_{ncells}_{nspacing}", *([z3.BoolSort()] * ncells),
                               *([z3.RealSort()] * nspacing), z3.RealSort())
    return _UF[key]


def rp_value(attr, bits, spacing, ndim_sp):
    """the reference value of regionprops attribute `attr` for a mask given as cell bits"""
    sp = [] if spacing is None else [unwrap(s) for s in spacing]
    n = RP_ATTRS[attr]
    if n is None:
        return [SReal(rp_uf(attr, k, len(bits), len(sp))(*bits, *sp)) for k in range(ndim_sp)]
    return SReal(rp_uf(attr, 0, len(bits), len(sp))(*bits, *sp))


_IOU = z3.Function("IOU", z3.IntSort(), z3.IntSort(), z3.RealSort())


class _Region:
    def __init__(self, label, bits, spacing, ndim_sp):
        self.label = label
        self._bits, self._spacing, self._nd = bits, spacing, ndim_sp

    def __getattr__(self, name):
        if name in RP_ATTRS:
            v = rp_value(name, self._bits, self._spacing, self._nd)
            return tuple(v) if isinstance(v, list) else v
        raise Unsupported(f"regionprops attribute {name} not modelled")


class Env:
    """per-path stub state (candidate labels)"""
    labels = ()


def rp_stub(frame, spacing=None, intensity_image=None, **extra):
    # `extra`: arguments a changed annotator may pass on (e.g. an offset of a cropped frame).  The contract stub has
    # no meaning for them: they are ignored and tagged; a region of a cropped frame is then a DIFFERENT uninterpreted
    # function than the reference over the whole frame, so the obligation fails in the engine and the real
    # regionprops decide in the replay (reproduced = violation, otherwise inconclusive - never a pass).
    if extra:
        cur().tag("rp_stub:extra_arguments:" + ",".join(sorted(extra)))
    if isinstance(frame, np.ndarray):
        frame = _as_sarr(frame)  # a frame that was realised at a C boundary
    if not isinstance(frame, SArr):
        raise Unsupported("regionprops stub on " + type(frame).__name__)
    out = []
    nd = frame.c.ndim
    for lab in Env.labels:
        bits = [c == lab for c in frame.cells()]
        if cur().decide(Or(bits)):
            out.append(_Region(lab, bits, spacing, nd))
    return out


_IOU_X = z3.Function("IOU_called_with_extra_arguments", z3.IntSort(), z3.IntSort(), z3.RealSort())


def iou_stub(f1, f2, *xa, **extra):
    """contract of _compute_ious: (l1, l2, |l1 & l2| / |l1 | l2|) for every label pair with overlap (a call with
    more than the two frames is outside the contract: different uninterpreted function, decided by the replay)"""
    fn = _IOU_X if (xa or extra) else _IOU
    if xa or extra:
        cur().tag("iou_stub:extra_arguments")
    f1 = _as_sarr(f1) if isinstance(f1, np.ndarray) else f1
    f2 = _as_sarr(f2) if isinstance(f2, np.ndarray) else f2
    if not isinstance(f1, SArr) or not isinstance(f2, SArr):
        raise Unsupported("iou stub on " + type(f1).__name__)
    c1, c2 = f1.cells(), f2.cells()
    pres1 = [a for a in Env.labels if cur().decide(Or([x == a for x in c1]))]
    pres2 = [b for b in Env.labels if cur().decide(Or([y == b for y in c2]))]
    out = []
    for a in pres1:
        for b in pres2:
            inter = count(And(x == a, y == b) for x, y in zip(c1, c2))
            if cur().decide(inter > 0):
                union = count(Or(x == a, y == b) for x, y in zip(c1, c2))
                out.append((a, b, SReal(fn(inter, union))))
    return out


_REAL = dict(rp=_rpa.regionprops_extended, iou=_ea._compute_ious)


def install_stubs():
    _rpa.regionprops_extended = rp_stub
    _ea._compute_ious = iou_stub


def remove_stubs():
    """replays run on the unmodified stack"""
    _rpa.regionprops_extended = _REAL["rp"]
    _ea._compute_ious = _REAL["iou"]


# ------------------------------------------------------------------ state
def frame_cells(shape, t):
    return [(t,) + idx for idx in np.ndindex(*shape[1:])]


def seg_corr(sh, tm, seg, ids):
    """C07: every non-zero label is an alive node in the cell's frame; every alive node has a pixel in its frame"""
    n = sh.n
    cs = []
    for idx in np.ndindex(*seg.c.shape):
        L = seg.c[idx]
        cs.append(Or([L == 0] + [And(L == ids[i], sh.al[i], tm[i] == idx[0]) for i in range(n) if tm[i] is not None]))
    for i in range(n):
        if tm[i] is None:
            cs.append(Not(sh.al[i]))
            continue
        cs.append(Implies(sh.al[i], Or([And(seg.c[idx] == ids[i], tm[i] == idx[0])
                                        for idx in np.ndindex(*seg.c.shape)])))
    return And(cs)


def rp_consistent(g, sh, tm, seg, keys, spacing):
    """C08: every enabled regionprops value equals RP(node's current mask in its own frame, spacing)"""
    cs = []
    nd = seg.c.ndim - 1
    Tn = seg.c.shape[0]
    for i in range(g.N):
        at = g.nattr[i]
        if tm[i] is None:
            continue
        for t in range(Tn):
            bits = [seg.c[c] == g.ids[i] for c in frame_cells(seg.c.shape, t)]
            oks = []
            for key in keys:
                want = rp_value(KEY_TO_RP[key], bits, spacing, nd)
                oks.append(same_value(at.get(key), want))
            cs.append(Implies(And(sh.al[i], tm[i] == t), And(oks)))
    return And(cs)


def iou_oracle(seg, ids, i, j, ti, tj):
    ci = [seg.c[c] for c in frame_cells(seg.c.shape, ti)]
    cj = [seg.c[c] for c in frame_cells(seg.c.shape, tj)]
    inter = count(And(x == ids[i], y == ids[j]) for x, y in zip(ci, cj))
    union = count(Or(x == ids[i], y == ids[j]) for x, y in zip(ci, cj))
    return inter, union


def iou_consistent(g, sh, tm, seg):
    """C09: every edge's stored IoU equals the overlap of its endpoints' masks, each in its own frame"""
    cs = []
    Tn = seg.c.shape[0]
    for i in range(g.N):
        for j in range(g.N):
            if i == j or tm[i] is None or tm[j] is None:
                continue
            if z3.is_false(sh.A[i][j]):
                continue
            stored = g.eattr.get((i, j), {}).get("iou")
            for ti in range(Tn):
                for tj in range(Tn):
                    inter, union = iou_oracle(seg, g.ids, i, j, ti, tj)
                    if stored is None:
                        ok = z3.BoolVal(False)
                    else:
                        se = unwrap(stored)
                        se = z3.ToReal(se) if z3.is_expr(se) and z3.is_int(se) else (
                            z3.RealVal(se) if not z3.is_expr(se) else se)
                        ok = se == If(inter > 0, _IOU(inter, union), z3.RealVal(0))
                    cs.append(Implies(And(sh.A[i][j], tm[i] == ti, tm[j] == tj), ok))
    return And(cs)


class Pre:
    pass


def build(ctx, cfg):
    N = cfg["N"]
    ctx.allow_realise = True  # cell labels are node ids of a small universe
    shape = tuple(cfg["shape"])  # (T, *spatial)
    Tn = shape[0]
    ndim = len(shape)
    ids = list(range(1, N + 2))
    Env.labels = tuple(ids)
    g = SymDiGraph(ids, fresh=False, sym_order=cfg.get("sym_order", True))
    p = Pre()
    p.N, p.ids, p.g, p.shape = N, ids, g, shape
    p.alive0 = [z3.Bool(f"alive{i}") for i in ids[:N]] + [z3.BoolVal(False)]
    p.adj0 = [[(z3.Bool(f"adj{i}_{j}") if (i != j and i <= N and j <= N) else z3.BoolVal(False)) for j in ids]
              for i in ids]
    p.t0 = [z3.Int(f"t{i}") for i in ids]
    p.tid0 = [z3.Int(f"tid{i}") for i in ids]
    p.lid0 = [z3.Int(f"lid{i}") for i in ids]
    p.cus0 = [z3.Int(f"cus{i}") for i in ids]
    rp_keys = ["pos", "area"] + (["ellipse_axis_radii", "circularity", "perimeter"] if cfg.get("all_rp") else [])
    with_iou = cfg.get("iou", False)
    p.rp_keys, p.with_iou = rp_keys, with_iou
    nsp = ndim - 1
    scale_mode = cfg.get("scale", "none")
    if scale_mode == "none":
        scale = None
    else:
        scale = [SReal(z3.Real(f"scale{d}")) for d in range(ndim)]
        ctx.add(And([s.e > 0 for s in scale]))
        if scale_mode == "iso":
            # isotropic, non-unit voxel size: skimage's perimeter (hence circularity) rejects anisotropic spacing, so
            # runs with those features enabled must produce models that replay on the real stack
            ctx.add(And([s.e == scale[1].e for s in scale[2:]] + [scale[1].e != 1]))
        if scale_mode == "aniso":
            # anisotropic, non-unit voxel size (every model then replays with such a scale)
            ctx.add(And([s.e != 1 for s in scale[1:]] + [z3.Distinct([s.e for s in scale[1:]])]))
    p.spacing = None if scale is None else tuple(scale[1:])
    for s in range(N + 1):
        g.alive[s] = p.alive0[s] if s < N else False
        for t in range(N + 1):
            g.E[s][t] = p.adj0[s][t] if (s != t and s < N and t < N) else False
        if s < N:
            d = {TK: SInt(p.t0[s]), TID: SInt(p.tid0[s]), LID: SInt(p.lid0[s]), CUS: SInt(p.cus0[s])}
            for key in rp_keys:
                k = RP_ATTRS[KEY_TO_RP[key]]
                if k is None:
                    d[key] = [SReal(z3.Real(f"{key}{s}_{a}")) for a in range(nsp)]
                else:
                    d[key] = SReal(z3.Real(f"{key}{s}"))
            g.nattr[s] = d
    if with_iou:
        for s in range(N):
            for t in range(N):
                if s != t:
                    g.eattr[(s, t)] = {"iou": SReal(z3.Real(f"iou{s}_{t}"))}
    seg = SArr.fresh("seg", shape, np.int64)
    p.seg, p.seg0 = seg, seg.c.copy()
    sh = I.Shape(g)
    p.sh0 = sh
    pre = dict(I.forest(sh))
    pre["forward"] = I.forward(sh, p.t0)
    pre["times"] = And([And(0 <= p.t0[i], p.t0[i] < Tn) for i in range(N)])
    pre["tracklets"] = I.partition_local(sh, p.tid0, lambda a, b: sh.outdeg[a] == 1)
    pre["lineages"] = I.partition_local(sh, p.lid0, lambda a, b: True)
    fx = cfg.get("fixed")
    if fx:
        # scenario-directed run: the forest shape and the times are CONCRETE (a deeper structure than the free runs
        # can afford), ids, attributes, array cells and the action's arguments stay symbolic
        cs = [p.alive0[i] == bool(fx["alive"][i]) for i in range(N)]
        cs += [p.t0[i] == fx["t"][i] for i in range(N) if fx["alive"][i]]
        es = set(map(tuple, fx["edges"]))
        cs += [p.adj0[a][b] == ((a, b) in es) for a in range(N) for b in range(N) if a != b]
        pre["fixed_scenario"] = And(cs)
    p.maxt, p.maxl = z3.Int("max_tid"), z3.Int("max_lid")
    pre["max"] = And([Implies(sh.al[i], And(p.tid0[i] <= p.maxt, p.lid0[i] <= p.maxl)) for i in range(N)]
                     + [p.maxt >= 0, p.maxl >= 0])
    tm_all = p.t0[:N] + [None]
    pre["seg_corr"] = seg_corr(sh, tm_all, seg, ids)
    stale = set(cfg.get("stale_keys", ()))  # enabled features whose stored values are arbitrary (not yet computed)
    pre["rp"] = rp_consistent(g, sh, tm_all, seg, [k_ for k_ in rp_keys if k_ not in stale], p.spacing)
    if with_iou and "iou" not in stale:
        pre["iou"] = iou_consistent(g, sh, tm_all, seg)
    ctx.assume(And(list(pre.values())))

    real_seg = np.zeros(shape, dtype=np.int64)
    tr = SolutionTracks(nx.DiGraph(), segmentation=real_seg, ndim=ndim, time_attr=TK, tracklet_attr=TID,
                        lineage_attr=LID, scale=None if scale is None else [1.0] * ndim)
    extra = [k for k in rp_keys if k not in ("pos", "area")] + (["iou"] if with_iou else [])
    if extra:
        tr.enable_features(extra, recompute=False)
    tr.features[CUS] = {"feature_type": "node", "value_type": "int", "num_values": 1, "required": False,
                        "default_value": None}
    tr.graph = g
    tr.segmentation = seg
    tr.scale = scale
    ta = tr.track_annotator
    ta.tracklet_id_to_nodes = LazyIdMap(ids, p.alive0, p.tid0)
    ta.lineage_id_to_nodes = LazyIdMap(ids, p.alive0, p.lid0)
    ta.max_tracklet_id, ta.max_lineage_id = SInt(p.maxt), SInt(p.maxl)
    p.hist_u, p.hist_r = [_Hist("U1"), _Hist("U2")], [_Hist("R1")]
    tr.action_history.undo_stack = list(p.hist_u)
    tr.action_history.redo_stack = list(p.hist_r)
    p.emitted = []
    tr.refresh.connect(lambda *a: p.emitted.append(a))
    p.tr, p.ta, p.with_lineage = tr, ta, True
    ctx.input("N", N)
    ctx.input("shape", list(shape))
    ctx.input("alive", p.alive0[:N])
    ctx.input("adj", [row[:N] for row in p.adj0[:N]])
    ctx.input("t", p.t0[:N])
    ctx.input("tid", p.tid0[:N])
    ctx.input("lid", p.lid0[:N])
    ctx.input("cus", p.cus0[:N])
    ctx.input("succ_order", g.order_log)
    ctx.input("max_tid", p.maxt)
    ctx.input("max_lid", p.maxl)
    ctx.input("seg", [p.seg0[idx] for idx in np.ndindex(*shape)])
    ctx.input("scale", None if scale is None else [s.e for s in scale])
    ctx.input("features", rp_keys + (["iou"] if with_iou else []))
    ctx.input("stale_keys", sorted(stale))
    ctx.env.update(N=N, alive=p.alive0, adj=p.adj0, t=p.t0, tid=p.tid0, lid=p.lid0, outdeg0=sh.outdeg,
                   indeg0=sh.indeg, seg0=p.seg0)
    return p


def seg_same(a, b):
    return And([x == y for x, y in zip(a.flat, b.flat)])


# ------------------------------------------------------------------ the actions
def paint(ctx, p, cfg):
    """The caller of UserUpdateSegmentation: paints a stroke (symbolic subset of the cells of one
    frame) with value v (0 = erase, an existing node id, or the free id), groups the changed cells by
    previous label, then calls the real action."""
    tr, g, seg = p.tr, p.g, p.seg
    shape = p.shape
    f = ctx.choose(shape[0], "frame")
    v = z3.Int("paint_value")
    ctx.add(And(0 <= v, v <= p.N + 1))
    cells = frame_cells(shape, f)
    stroke = [c for c in cells if ctx.decide(z3.Bool("stroke_" + "_".join(map(str, c[1:]))))]
    if not stroke:
        raise PathAbort()
    # caller precondition (DESIGN C07): an existing node's label is painted only in its own frame
    ctx.assume(And([Implies(And(p.sh0.al[i], v == p.ids[i]), p.t0[i] == f) for i in range(p.N)]))
    groups = []
    report_bg = None
    for c in stroke:
        old = seg.c[c]
        if ctx.decide(old == v):
            # an unchanged pixel is normally not reported by the caller; an eraser dragged over background may
            # report it (value 0 over 0): still one user action - one history step, one refresh
            if not (cfg.get("report_unchanged_background", True) and ctx.decide(v == 0)):
                continue
            if report_bg is None:
                report_bg = ctx.choose(2, "report_unchanged_background") == 1
            if not report_bg:
                continue
        for grp in groups:
            if ctx.decide(grp[0] == old):
                grp[1].append(c)
                break
        else:
            groups.append((old, [c]))
    if not groups:
        raise PathAbort()
    updated = []
    for old, cs in groups:
        px = tuple(np.array([c[d] for c in cs]) for d in range(len(shape)))
        updated.append((px, SInt(old)))
    changed = [c for _, cs in groups for c in cs]
    for c in changed:
        seg.c[c] = v
    painted = seg.c.copy()
    cur_track = z3.Int("cur_track")
    force = bool(SBool(z3.Bool("force")))
    args = dict(frame=f, value=v, stroke=[list(c) for c in changed], cur_track=cur_track, force=force)
    ctx.input("args", args)
    ctx.env.update(frame=f, value=v, force=force)
    named = dict(nodes=[], tid=cur_track, new=None)
    try:
        act = UserUpdateSegmentation(tr, SInt(v), updated, SInt(cur_track), force=force)
    except Unsupported:
        raise
    except Exception as e:
        reraise_model_gap(e)
        # the caller restores the painted pixels after a refusal
        for old, cs in groups:
            for c in cs:
                seg.c[c] = old
        return None, e, dict(painted=painted, changed=changed, value=v, frame=f)
    return act, None, dict(painted=painted, changed=changed, value=v, frame=f)


def pick_node(ctx, p, label, dead_ok=True):
    return p.ids[ctx.choose(p.N + (1 if dead_ok else 0), label)]


def other(ctx, p, cfg):
    kind = cfg["action"]
    tr = p.tr
    info = {}
    try:
        if kind in ("UserAddEdge", "UserDeleteEdge", "UserSwapPredecessors"):
            u, v = pick_node(ctx, p, "u"), pick_node(ctx, p, "v")
            args = dict(u=u, v=v)
            if kind == "UserAddEdge":
                force = bool(SBool(z3.Bool("force")))
                args["force"] = force
                ctx.input("args", args)
                act = UserAddEdge(tr, (u, v), force=force)
            elif kind == "UserDeleteEdge":
                ctx.input("args", args)
                act = UserDeleteEdge(tr, (u, v))
            else:
                ctx.input("args", args)
                act = UserSwapPredecessors(tr, (u, v))
        elif kind == "UserDeleteNode":
            n = pick_node(ctx, p, "n")
            # the caller may supply the node's pixels (documented: "if known") or let the action compute them
            give = ctx.choose(2, "give_pixels") == 1
            ctx.input("args", dict(n=n, give_pixels=give))
            px = None
            if give:
                if not ctx.decide(p.sh0.al[n - 1]):
                    raise PathAbort()
                px = tr.get_pixels(n)
            act = UserDeleteNode(tr, n, pixels=px)
        elif kind == "UserAddNode":
            # node addition on tracks with segmentation carries non-empty pixels on background
            n = p.ids[p.N]
            f = ctx.choose(p.shape[0], "frame")
            cells = frame_cells(p.shape, f)
            px_cells = [c for c in cells if ctx.decide(z3.Bool("px_" + "_".join(map(str, c[1:]))))]
            if not px_cells:
                raise PathAbort()
            ctx.assume(And([p.seg.c[c] == 0 for c in px_cells]))
            pixels = tuple(np.array([c[d] for c in px_cells]) for d in range(len(p.shape)))
            ntid, ncus = z3.Int("new_tid"), z3.Int("new_cus")
            force = bool(SBool(z3.Bool("force")))
            attrs = {TK: f, TID: SInt(ntid), CUS: SInt(ncus)}
            # the caller may also pass values for mask-derived features (a click position, a dict copied from
            # another node): they must not survive - the stored value is the one measured from the mask
            given = None
            if ctx.choose(2, "supply_measures") == 1:
                gp = [z3.Real(f"given_pos{d}") for d in range(len(p.shape) - 1)]
                ga = z3.Real("given_area")
                attrs[POS] = [SReal(x) for x in gp]
                attrs["area"] = SReal(ga)
                given = dict(pos=gp, area=ga)
            ctx.input("args", dict(n=n, frame=f, pixels=[list(c) for c in px_cells], tid=ntid, cus=ncus, force=force,
                                   given=given))
            info["new"] = n
            act = UserAddNode(tr, n, attrs, pixels=pixels, force=force)
        else:
            raise AssertionError(kind)
    except Unsupported:
        raise
    except Exception as e:
        reraise_model_gap(e)
        return None, e, info
    return act, None, info


def harness(ctx, cfg):
    install_stubs()
    try:
        _harness(ctx, cfg)
    finally:
        remove_stubs()


def _harness(ctx, cfg):
    p = build(ctx, cfg)
    kind = cfg["action"]
    props = cfg.get("props")

    def want(pid):
        return props is None or pid in props

    k = z3.Int("k_fresh")
    disabled = list(cfg.get("disable", []))
    if disabled:
        # C10: a disabled feature is no longer changed by edits (its stored values are arbitrary)
        p.tr.disable_features(disabled)
        p.rp_keys = [x for x in p.rp_keys if x not in disabled]
        if "iou" in disabled:
            p.with_iou = False
        ctx.input("disabled", disabled)
    cyc = cfg.get("cycle")
    if cyc:
        # C10 "for any order of enabling, disabling and editing": the feature goes through a full cycle on THIS object -
        # enabled with recomputation and disabled again before the edit, enabled again after it (a run from a
        # constructed state cannot see bookkeeping that only such a history fills, e.g. a cache of computed keys)
        p.tr.enable_features([cyc])
        p.tr.disable_features([cyc])
        ctx.input("cycle", cyc)
    raw_n0 = [dict(d) for d in p.g.nattr]
    raw_e0 = {e: dict(d) for e, d in p.g.eattr.items()}
    S0 = Snap(p, k)
    if p.N >= 3:
        # reachability twin on the PRE-state (also counted on paths that end in a refusal)
        ctx.witness("division", Or([S0.sh.outdeg[i] == 2 for i in range(p.N)]))
    if p.shape[0] >= 3 and p.N >= 2:
        ctx.witness("skip_edge_pre", Or([And(S0.sh.A[i][j], p.t0[j] - p.t0[i] > 1) for i in range(p.N)
                                         for j in range(p.N) if i != j]))
    if kind == "paint":
        act, exc, info = paint(ctx, p, cfg)
    else:
        act, exc, info = other(ctx, p, cfg)
    ctx.input("action", kind)
    ctx.input("enable_mid", cfg.get("enable_mid"))
    ctx.input("disable_mid", cfg.get("disable_mid"))
    ctx.env.update(action=kind)
    g, seg, tr = p.g, p.seg, p.tr
    S1 = Snap(p, k)
    seg1 = seg.c.copy()
    if exc is not None:
        ctx.tag(f"refused:{type(exc).__name__}" + (":forceable" if getattr(exc, "forceable", False) else ""))
        if want("C11"):
            ctx.oblige("C11.graph_unchanged", S.same_graph(S0, S1), "C11")
            ctx.oblige("C11.attrs_unchanged", S.same_attrs(S0, S1), "C11")
            ctx.oblige("C11.lookups_unchanged", S.same_lookups(S0, S1), "C11")
            ctx.oblige("C11.history_unchanged", S.same_history(S0, S1), "C11")
            ctx.oblige("C11.segmentation_unchanged", seg_same(p.seg0, seg1), "C11")
            ctx.oblige("C11.no_refresh", len(p.emitted) == 0, "C11")
            ctx.oblige("C11.registry_unchanged", S0.feature_keys == S1.feature_keys and S0.counter == S1.counter,
                       "C11")
        if want("C20"):
            ctx.oblige("C20.refused_emits_none", len(p.emitted) == 0, "C20")
            ctx.oblige("C20.signal_delivers_after_refusal", S.signal_delivers(p), "C20")
        return
    sub = ",".join(type(a).__name__ for a in getattr(act, "actions", []))
    ctx.tag("accepted")
    ctx.tag(f"acts:{sub}" if sub else "acts:-")
    emitted1 = list(p.emitted)
    tm1 = S1.t

    def post_obligations(tagname, Sx, segc):
        """C07/C08/C09 on the current state (called after the edit, after undo, after redo)"""
        sarr = SArr(segc)
        if want("C07"):
            ctx.oblige(f"C07.correspondence{tagname}", seg_corr(Sx.sh, Sx.t, sarr, p.ids), "C07")
        if want("C08"):
            ctx.oblige(f"C08.regionprops_current{tagname}",
                       rp_consistent_snap(p, Sx, sarr), "C08")
        if want("C09") and p.with_iou:
            ctx.oblige(f"C09.iou_current{tagname}", iou_consistent_snap(p, Sx, sarr), "C09")

    if disabled and want("C10"):
        cs = []
        for i in range(g.N):
            for key in disabled:
                if key == "iou":
                    continue
                cs.append(Implies(And(S0.sh.al[i], S1.sh.al[i]), same_value(raw_n0[i].get(key), g.nattr[i].get(key))))
        if "iou" in disabled:
            named_edge = None
            if kind in ("UserAddEdge", "UserDeleteEdge"):
                a_ = ctx.inputs.get("args", {})
                named_edge = (p.ids.index(a_["u"]), p.ids.index(a_["v"]))
            for (a, b), d in raw_e0.items():
                if (a, b) == named_edge:
                    continue  # the named edge may be removed and re-created by the edit itself
                cs.append(Implies(And(S0.sh.A[a][b], S1.sh.A[a][b]),
                                  same_value(d.get("iou"), g.eattr.get((a, b), {}).get("iou"))))
        ctx.oblige("C10.disabled_feature_untouched_by_edit", And(cs), "C10")
    if want("C07") and kind == "paint":
        ctx.oblige("C07.array_as_painted", seg_same(info["painted"], seg1), "C07")
    post_obligations("", S1, seg1)
    if want("C07"):
        # the pixel query returns exactly the node's pixels (real get_pixels through the np.nonzero model)
        n_i = ctx.choose(p.N + 1, "query_node")
        if ctx.decide(S1.sh.al[n_i]):
            px = tr.get_pixels(p.ids[n_i])
            got = set(zip(*[[int(x) if not isinstance(x, SInt) else cur().concretize(x.e) for x in a] for a in px]))
            cs = []
            for idx in np.ndindex(*p.shape):
                is_px = And(seg1[idx] == p.ids[n_i], S1.t[n_i] == idx[0])
                cs.append(is_px if idx in got else Not(is_px))
            ctx.oblige("C07.get_pixels_exact", And(cs), "C07")
    if want("C03"):
        for name, f in S.c03(S1).items():
            ctx.oblige(f"C03.{name}", f, "C03")
    if want("C04"):
        ctx.oblige("C04.partition", S.c04_partition(S1), "C04")
    if want("C05"):
        ctx.oblige("C05.partition", S.c05_partition(S1), "C05")
    if want("C06"):
        ctx.oblige("C06.lookups", S.c06_lookups(S1, k, True), "C06")
        ctx.oblige("C06.wellformed", S1.wf, "C06")
        ctx.oblige("C06.max_ids", S.c06_fresh(S1, True), "C06")
    if want("C02"):
        ok = (len(S1.undo) == len(S0.undo) + len(S0.redo) + 1 and S1.undo[-1] is act and S1.redo == [])
        ctx.oblige("C02.one_entry", ok, "C02")
    if want("C20"):
        ctx.oblige("C20.one_refresh", len(emitted1) == 1, "C20")
        payload_ok = True
        if len(emitted1) == 1:
            created = None
            if kind == "UserAddNode":
                created = info.get("new")
            elif kind == "paint":
                # a paint that creates a node selects it
                vi = info["value"]
                created_f = And(vi != 0, Not(Or([And(S0.sh.al[i], vi == p.ids[i]) for i in range(p.N + 1)])))
                em = emitted1[0]
                got = em[0] if em else None
                if got is None:
                    payload_ok = Not(created_f)
                else:
                    payload_ok = And(created_f, toint(got) == vi)
            if kind != "paint":
                payload_ok = emitted1[0] == ((created,) if created is not None else ()) or (
                    created is None and emitted1[0] == (None,))
        ctx.oblige("C20.payload", payload_ok, "C20")
    ctx.witness("state_changed", Not(And(S.same_graph(S0, S1), S.same_attrs(S0, S1), seg_same(p.seg0, seg1))))


    if cyc:
        tr.enable_features([cyc])
        if cyc == "iou":
            p.with_iou = True
        else:
            p.rp_keys = list(p.rp_keys) + [cyc]
        ctx.tag("cycle_reenabled")
        Sc = Snap(p, k)
        sarr_c = SArr(seg.c.copy())
        ref = iou_consistent_snap(p, Sc, sarr_c) if cyc == "iou" else rp_consistent_snap(p, Sc, sarr_c)
        ctx.oblige("C10.values_after_reenable_equal_reference", ref, "C10")
        ctx.oblige("C10.reenabled_key_registered", cyc in tr.features and cyc in tr.annotators.features, "C10")
    mid = cfg.get("enable_mid")
    if mid:
        # a feature is switched on BETWEEN the edit and its undo (enable/disable are not history entries): the stored
        # action must not carry measurements that by-pass the annotators when it is inverted
        tr.enable_features([mid])
        if mid == "iou":
            p.with_iou = True
        else:
            p.rp_keys = list(p.rp_keys) + [mid]
        ctx.tag("mid_enabled")
        post_obligations(":after_mid_enable", Snap(p, k), seg.c.copy())
    dmid = cfg.get("disable_mid")
    if dmid:
        # a feature is switched OFF between the edit and its undo: the undo must leave its stored values alone
        tr.disable_features([dmid])
        if dmid == "iou":
            p.with_iou = False
        else:
            p.rp_keys = [x for x in p.rp_keys if x != dmid]
        ctx.tag("mid_disabled")
        raw_n1 = [dict(d) for d in g.nattr]
        raw_e1 = {e: dict(d) for e, d in g.eattr.items()}
        al1 = list(S1.sh.al)
        A1 = [list(r) for r in S1.sh.A]
    if want("C01") or want("C07") or want("C08") or want("C09") or want("C20") or want("C06") or dmid:
        del p.emitted[:]
        try:
            r1 = tr.undo()
            S2 = Snap(p, k)
            seg2 = seg.c.copy()
            if dmid and want("C10"):
                cs = []
                if dmid == "iou":
                    for (a, b), d in raw_e1.items():
                        cs.append(Implies(And(A1[a][b], S2.sh.A[a][b]),
                                          same_value(d.get("iou"), g.eattr.get((a, b), {}).get("iou"))))
                else:
                    for i in range(g.N):
                        cs.append(Implies(And(al1[i], S2.sh.al[i]),
                                          same_value(raw_n1[i].get(dmid), g.nattr[i].get(dmid))))
                ctx.oblige("C10.disabled_feature_untouched_by_undo", And(cs), "C10")
            e2 = list(p.emitted)
            del p.emitted[:]
            r2 = tr.redo()
            S3 = Snap(p, k)
            seg3 = seg.c.copy()
            e3 = list(p.emitted)
        except Unsupported:
            raise
        except Exception as e:
            reraise_model_gap(e)
            ctx.tag(f"inverse_raised:{type(e).__name__}")
            ctx.oblige("C01.inverse_applies", False, "C01")
            return
        if want("C01"):
            ctx.oblige("C01.undo_graph", S.same_graph(S0, S2), "C01")
            ctx.oblige("C01.undo_attrs", S.same_attrs(S0, S2), "C01")
            ctx.oblige("C01.undo_segmentation", seg_same(p.seg0, seg2), "C01")
            ctx.oblige("C01.redo_graph", S.same_graph(S1, S3), "C01")
            ctx.oblige("C01.redo_attrs", S.same_attrs(S1, S3), "C01")
            ctx.oblige("C01.redo_segmentation", seg_same(seg1, seg3), "C01")
        if want("C07"):
            ctx.oblige("C07.undo_restores_array", seg_same(p.seg0, seg2), "C07")
            ctx.oblige("C07.redo_repaints_array", seg_same(seg1, seg3), "C07")
        post_obligations(":after_undo", S2, seg2)
        post_obligations(":after_redo", S3, seg3)
        if want("C06"):
            ctx.oblige("C06.lookups_after_undo", And(S.c06_lookups(S2, k, True), S2.wf, S.c06_fresh(S2, True)), "C06")
            ctx.oblige("C06.lookups_after_redo", And(S.c06_lookups(S3, k, True), S3.wf, S.c06_fresh(S3, True)), "C06")
        if want("C20"):
            ctx.oblige("C20.undo_one_refresh", len(e2) == 1 and len(e3) == 1, "C20")
            ctx.oblige("C20.signal_delivers_after_edit", S.signal_delivers(p), "C20")
        if cfg.get("twice", True) and want("C01"):
            # the same history entry inverted a second time (e u r u r)
            try:
                tr.undo()
                S4 = Snap(p, k)
                seg4 = seg.c.copy()
                tr.redo()
                S5 = Snap(p, k)
                seg5 = seg.c.copy()
            except Unsupported:
                raise
            except Exception as e:
                reraise_model_gap(e)
                ctx.tag(f"second_inverse_raised:{type(e).__name__}")
                ctx.oblige("C01.inverse_applies_again", False, "C01")
                return
            ctx.oblige("C01.second_undo", And(S.same_graph(S0, S4), S.same_attrs(S0, S4), seg_same(p.seg0, seg4)),
                       "C01")
            ctx.oblige("C01.second_redo", And(S.same_graph(S1, S5), S.same_attrs(S1, S5), seg_same(seg1, seg5)),
                       "C01")


def rp_consistent_snap(p, Sx, sarr):
    """rp_consistent over a snapshot's attribute observations"""
    cs = []
    nd = sarr.c.ndim - 1
    Tn = sarr.c.shape[0]
    for i in range(p.g.N):
        if Sx.t[i] is None:
            continue
        for t in range(Tn):
            bits = [sarr.c[c] == p.ids[i] for c in frame_cells(sarr.c.shape, t)]
            oks = [same_value(Sx.nattr[i].get(key), rp_value(KEY_TO_RP[key], bits, p.spacing, nd))
                   for key in p.rp_keys]
            cs.append(Implies(And(Sx.sh.al[i], Sx.t[i] == t), And(oks)))
    return And(cs)


def iou_consistent_snap(p, Sx, sarr):
    cs = []
    Tn = sarr.c.shape[0]
    n = p.g.N
    for i in range(n):
        for j in range(n):
            if i == j or Sx.t[i] is None or Sx.t[j] is None or z3.is_false(Sx.sh.A[i][j]):
                continue
            stored = Sx.eattr.get((i, j), {}).get("iou")
            for ti in range(Tn):
                for tj in range(Tn):
                    inter, union = iou_oracle(sarr, p.ids, i, j, ti, tj)
                    if stored is None:
                        ok = z3.BoolVal(False)
                    else:
                        se = unwrap(stored)
                        if not z3.is_expr(se):
                            se = z3.RealVal(se)
                        elif z3.is_int(se):
                            se = z3.ToReal(se)
                        ok = se == If(inter > 0, _IOU(inter, union), z3.RealVal(0))
                    cs.append(Implies(And(Sx.sh.A[i][j], Sx.t[i] == ti, Sx.t[j] == tj), ok))
    return And(cs)


def enable_harness(ctx, cfg):
    """Bulk computation: enable a feature at an arbitrary Inv-state (= 'at any point of the history')
    and compare every stored value with the reference for the current state."""
    install_stubs()
    try:
        _enable_harness(ctx, cfg)
    finally:
        remove_stubs()


def _enable_harness(ctx, cfg):
    p = build(ctx, cfg)
    tr = p.tr
    key = cfg["key"]
    k = z3.Int("k_fresh")
    ctx.input("action", "enable_features")
    ctx.input("args", dict(key=key))
    ctx.env.update(action="enable_features", key=key)
    if cfg.get("was_disabled"):
        # the feature was switched off earlier and its stored values went stale under later edits (arbitrary now):
        # switching it back on must bring every value up to date
        tr.disable_features([key])
    ctx.input("was_disabled", bool(cfg.get("was_disabled")))
    tr.enable_features([key])
    ctx.tag("enabled")
    S1 = Snap(p, k)
    sarr = SArr(p.seg.c.copy())
    if key == "iou":
        p.with_iou = True
        ctx.oblige("C09.iou_bulk", iou_consistent_snap(p, S1, sarr), "C09")
        ctx.witness("skip_edge", Or([And(S1.sh.A[i][j], S1.t[j] - S1.t[i] > 1) for i in range(p.N)
                                     for j in range(p.N) if i != j]))
    else:
        p.rp_keys = list(p.rp_keys) + ([key] if key not in p.rp_keys else [])
        ctx.oblige("C08.regionprops_bulk", rp_consistent_snap(p, S1, sarr), "C08")
    ctx.oblige("C10.registered", key in tr.features and key in tr.annotators.features, "C10")
    ctx.oblige("C16.segmentation_untouched", seg_same(p.seg0, p.seg.c), "C16")
