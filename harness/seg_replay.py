"""Replay of segmentation-harness counterexamples on the unmodified stack (real numpy array, real
skimage regionprops, real _compute_ious) with independent plain-python oracles."""
from __future__ import annotations

import warnings
from fractions import Fraction

import networkx as nx
import numpy as np

from harness import step_replay as R
from harness.step_replay import (CUS, LID, POS, T, TID, lookups_ok, partition_ok, same_graph, same_history,
                                 same_lookups, snapshot, tracklet_components, _brief)

RP_KEYS = ["pos", "area", "ellipse_axis_radii", "circularity", "perimeter"]


def _num(x):
    if isinstance(x, list) and len(x) == 2:
        return float(Fraction(x[0], x[1]))
    return float(x)


def brute_iou(seg, a, ta, b, tb):
    ma, mb = seg[ta] == a, seg[tb] == b
    inter = int(np.sum(ma & mb))
    union = int(np.sum(ma | mb))
    return inter / union if inter > 0 else 0


def build_real(inp):
    from funtracks.actions._base import Action
    from funtracks.data_model import SolutionTracks

    N = inp["N"]
    shape = tuple(inp["shape"])
    seg = np.array(inp["seg"], dtype=np.int64).reshape(shape)
    g = nx.DiGraph()
    for i in range(N):
        if inp["alive"][i]:
            g.add_node(i + 1, **{T: inp["t"][i], TID: inp["tid"][i], LID: inp["lid"][i], CUS: inp["cus"][i]})
    so = {int(k): v for k, v in (inp.get("succ_order") or {}).items()}
    for i in range(N):
        kids = [j + 1 for j in range(N) if inp["adj"][i][j]]
        first = [c for c in so.get(i + 1, []) if c in kids]
        for c in first + [c for c in kids if c not in first]:  # adjacency (= iteration) order as in the model
            g.add_edge(i + 1, c)
    scale = None if inp.get("scale") is None else [_num(s) for s in inp["scale"]]
    tr = SolutionTracks(g, segmentation=seg, ndim=len(shape), time_attr=T, tracklet_attr=TID, lineage_attr=LID,
                        scale=scale)
    feats = inp.get("features", ["pos", "area"])
    extra = [k for k in feats if k in RP_KEYS and k not in ("pos", "area")]
    if extra:
        tr.enable_features(extra)
    if "iou" in feats:
        tr.enable_features(["iou"], recompute=False)
        for u, v in g.edges():
            g.edges[u, v]["iou"] = brute_iou(seg, u, g.nodes[u][T], v, g.nodes[v][T])
    tr.features[CUS] = {"feature_type": "node", "value_type": "int", "num_values": 1, "required": False,
                        "default_value": None}
    ta = tr.track_annotator
    ta.max_tracklet_id = max(ta.max_tracklet_id, inp["max_tid"])
    ta.max_lineage_id = max(ta.max_lineage_id, inp["max_lid"])

    class H(Action):
        def __init__(self, name):
            self.name = name

        def inverse(self):
            raise AssertionError("pre-existing history entry inverted")

    tr.action_history.undo_stack = [H("U1"), H("U2")]
    tr.action_history.redo_stack = [H("R1")]
    return tr


def close(a, b):
    if a is None or b is None:
        return a is None and b is None
    try:
        return bool(np.allclose(np.asarray(a, dtype=float), np.asarray(b, dtype=float), rtol=1e-9, atol=1e-12))
    except Exception:
        return a == b


def attrs_close(a, b):
    if a["nattr"].keys() != b["nattr"].keys() or a["eattr"].keys() != b["eattr"].keys():
        return False
    for n in a["nattr"]:
        for k in set(a["nattr"][n]) | set(b["nattr"][n]):
            if not close(a["nattr"][n].get(k), b["nattr"][n].get(k)):
                return False
    for e in a["eattr"]:
        for k in set(a["eattr"][e]) | set(b["eattr"][e]):
            if not close(a["eattr"][e].get(k), b["eattr"][e].get(k)):
                return False
    return True


def corr_ok(tr):
    g, seg = tr.graph, tr.segmentation
    for t in range(seg.shape[0]):
        for lab in np.unique(seg[t]):
            if lab == 0:
                continue
            if int(lab) not in g or g.nodes[int(lab)][T] != t:
                return False, f"label {lab} in frame {t} has no node there"
    for n in g.nodes():
        t = g.nodes[n][T]
        if not (0 <= t < seg.shape[0]) or not np.any(seg[t] == n):
            return False, f"node {n} has no pixel in its frame {t}"
    return True, ""


def rp_ok(tr, keys):
    from funtracks.annotators._regionprops_extended import regionprops_extended

    g, seg = tr.graph, tr.segmentation
    names = tr.annotators[0].regionprops_names
    spacing = None if tr.scale is None else tuple(tr.scale[1:])
    for n in g.nodes():
        t = g.nodes[n][T]
        masked = np.where(seg[t] == n, n, 0)
        regs = regionprops_extended(masked, spacing=spacing)
        for k in keys:
            have = g.nodes[n].get(k)
            if not regs:
                if have is not None:
                    return False, f"node {n}: {k}={have} but the node has no mask"
                continue
            want = getattr(regs[0], names[k])
            if not close(have, want):
                return False, f"node {n}: stored {k}={have}, from-scratch value {want}"
    return True, ""


def iou_ok(tr):
    g, seg = tr.graph, tr.segmentation
    for u, v in g.edges():
        have = g.edges[u, v].get("iou")
        want = brute_iou(seg, u, g.nodes[u][T], v, g.nodes[v][T])
        if have is None or not close(have, want):
            return False, f"edge {(u, v)}: stored iou {have}, true overlap {want}"
    return True, ""


def run(tr, inp):
    from funtracks import user_actions as U

    kind, a = inp["action"], inp["args"]
    seg = tr.segmentation
    info = {}
    if kind == "paint":
        cells = [tuple(c) for c in a["stroke"]]
        v = a["value"]
        groups = {}
        for c in cells:
            groups.setdefault(int(seg[c]), []).append(c)
        updated = [(tuple(np.array([c[d] for c in cs]) for d in range(seg.ndim)), old) for old, cs in groups.items()]
        before = seg.copy()
        for c in cells:
            seg[c] = v
        info["painted"] = seg.copy()
        try:
            return U.UserUpdateSegmentation(tr, v, updated, a["cur_track"], force=a["force"]), info
        except Exception:
            seg[...] = before  # the caller restores the painted pixels
            raise
    if kind == "UserAddEdge":
        return U.UserAddEdge(tr, (a["u"], a["v"]), force=a["force"]), info
    if kind == "UserDeleteEdge":
        return U.UserDeleteEdge(tr, (a["u"], a["v"])), info
    if kind == "UserSwapPredecessors":
        return U.UserSwapPredecessors(tr, (a["u"], a["v"])), info
    if kind == "UserDeleteNode":
        px = tr.get_pixels(a["n"]) if a.get("give_pixels") else None
        return U.UserDeleteNode(tr, a["n"], pixels=px), info
    if kind == "UserAddNode":
        px = tuple(np.array([c[d] for c in a["pixels"]]) for d in range(seg.ndim))
        attrs = {T: a["frame"], TID: a["tid"], CUS: a["cus"]}
        if a.get("given"):
            attrs[POS] = [_num(x) for x in a["given"]["pos"]]
            attrs["area"] = _num(a["given"]["area"])
        return U.UserAddNode(tr, a["n"], attrs, pixels=px, force=a["force"]), info
    raise AssertionError(kind)


def replay(f):
    inp, ob = f["inputs"], f["obligation"]
    feats = inp.get("features", ["pos", "area"])
    rpk = [k for k in feats if k in RP_KEYS]
    with warnings.catch_warnings():
        warnings.simplefilter("ignore")
        tr = build_real(inp)
        if inp["action"] == "enable_features":
            key = inp["args"]["key"]
            for sk in inp.get("stale_keys") or []:
                # the feature is active but its stored values were never computed (arbitrary)
                if sk == "iou":
                    for u, v in tr.graph.edges():
                        tr.graph.edges[u, v]["iou"] = -1.0
                else:
                    for n_ in tr.graph.nodes():
                        old_v = tr.graph.nodes[n_].get(sk)
                        tr.graph.nodes[n_][sk] = [-1.0] * len(old_v) if isinstance(old_v, (list, tuple)) else -1.0
            seg0 = tr.segmentation.copy()
            if inp.get("was_disabled"):
                tr.disable_features([key])
            tr.enable_features([key])
            if ob == "C09.iou_bulk":
                ok, why = iou_ok(tr)
                return (not ok), why
            if ob == "C08.regionprops_bulk":
                ok, why = rp_ok(tr, rpk + [key])
                return (not ok), why
            if ob == "C10.registered":
                return not (key in tr.features and key in tr.annotators.features), ""
            if ob == "C16.segmentation_untouched":
                return (not np.array_equal(seg0, tr.segmentation)), ""
            return False, "no oracle"
        emitted = []
        tr.refresh.connect(lambda *a: emitted.append(a))
        disabled = inp.get("disabled") or []
        if disabled:
            tr.disable_features(list(disabled))
            rpk = [k for k in rpk if k not in disabled]
        cyc = inp.get("cycle")
        if cyc:
            tr.enable_features([cyc])
            tr.disable_features([cyc])
        raw_n0 = {n: dict(d) for n, d in tr.graph.nodes(data=True)}
        raw_e0 = {(u, v): dict(d) for u, v, d in tr.graph.edges(data=True)}
        S0 = snapshot(tr)
        try:
            act, info = run(tr, inp)
            exc = None
        except Exception as e:
            act, exc, info = None, e, {}
        S1 = snapshot(tr)
        if exc is not None:
            table = {
                "C11.graph_unchanged": same_graph(S0, S1),
                "C11.attrs_unchanged": attrs_close(S0, S1),
                "C11.lookups_unchanged": same_lookups(S0, S1),
                "C11.history_unchanged": same_history(S0, S1),
                "C11.segmentation_unchanged": np.array_equal(S0["seg"], S1["seg"]),
                "C11.no_refresh": len(emitted) == 0,
                "C11.registry_unchanged": S0["feature_keys"] == S1["feature_keys"] and S0["counter"] == S1["counter"],
                "C20.refused_emits_none": len(emitted) == 0,
                "C20.signal_delivers_after_refusal": R._signal_delivers(tr, emitted),
            }
            if ob in table:
                return (not table[ob]), f"refused with {type(exc).__name__}: {exc}; pre={_brief(S0)} post={_brief(S1)}"
            return False, f"refused ({type(exc).__name__}: {exc}); obligation {ob} is about an accepted edit"
        if ob.startswith("C11") or ob in ("C20.refused_emits_none", "C20.signal_delivers_after_refusal"):
            return False, "accepted"
        g1 = tr.graph
        detail = f"pre={_brief(S0)} seg0={S0['seg'].tolist()} post={_brief(S1)} seg1={S1['seg'].tolist()}"
        emitted1 = list(emitted)

        def state_checks(suffix):
            if ob == "C07.correspondence" + suffix:
                ok, why = corr_ok(tr)
                return (not ok), why
            if ob == "C08.regionprops_current" + suffix:
                ok, why = rp_ok(tr, rpk)
                return (not ok), why
            if ob == "C09.iou_current" + suffix:
                ok, why = iou_ok(tr)
                return (not ok), why
            return None

        if ob == "C10.disabled_feature_untouched_by_edit":
            a = inp["args"]
            named = (a.get("u"), a.get("v")) if inp["action"] in ("UserAddEdge", "UserDeleteEdge") else None
            for n, d in raw_n0.items():
                if n in g1:
                    for k in disabled:
                        if k != "iou" and not close(d.get(k), g1.nodes[n].get(k)):
                            return True, detail + f" node {n}: disabled {k} changed {d.get(k)} -> {g1.nodes[n].get(k)}"
            if "iou" in disabled:
                for e, d in raw_e0.items():
                    if e != named and g1.has_edge(*e) and not close(d.get("iou"), g1.edges[e].get("iou")):
                        return True, detail + f" edge {e}: disabled iou changed {d.get('iou')} -> {g1.edges[e].get('iou')}"
            return False, detail
        r = state_checks("")
        if r is not None:
            return r[0], detail + " " + r[1]
        if cyc and ob.startswith("C10."):
            tr.enable_features([cyc])
            if ob == "C10.reenabled_key_registered":
                return not (cyc in tr.features and cyc in tr.annotators.features), detail
            if ob == "C10.values_after_reenable_equal_reference":
                ok, why = iou_ok(tr) if cyc == "iou" else rp_ok(tr, rpk + [cyc])
                return (not ok), detail + f" after enable, disable, edit, enable of {cyc}: " + why
        if ob == "C07.array_as_painted":
            return (not np.array_equal(info["painted"], S1["seg"])), detail
        if ob == "C07.get_pixels_exact":
            for n in g1.nodes():
                px = tr.get_pixels(n)
                got = set(zip(*[list(map(int, a)) for a in px]))
                t = g1.nodes[n][T]
                want = {(t,) + tuple(map(int, c)) for c in zip(*np.nonzero(tr.segmentation[t] == n))}
                if got != want:
                    return True, detail + f" node {n}: get_pixels {got} != {want}"
            return False, detail
        if ob.startswith("C03."):
            name = ob[4:]
            bad = {"edges_alive": False,
                   "indeg_le_1": any(d > 1 for _, d in g1.in_degree()),
                   "outdeg_le_2": any(d > 2 for _, d in g1.out_degree()),
                   "forward": any(not (g1.nodes[u][T] < g1.nodes[v][T]) for u, v in g1.edges())}
            return bad.get(name, False), detail
        if ob == "C04.partition":
            return (not partition_ok(g1, TID, tracklet_components(g1))), detail
        if ob == "C05.partition":
            return (not partition_ok(g1, LID, list(nx.weakly_connected_components(g1)))), detail
        if ob in ("C06.lookups", "C06.wellformed", "C06.max_ids"):
            ok, why = lookups_ok(tr, True)
            return (not ok), detail + " " + why
        if ob == "C02.one_entry":
            ok = (len(S1["undo"]) == len(S0["undo"]) + len(S0["redo"]) + 1 and S1["undo"][-1] is act
                  and S1["redo"] == [])
            return (not ok), detail
        if ob == "C20.one_refresh":
            return len(emitted1) != 1, f"emitted {emitted1}"
        if ob == "C20.payload":
            if len(emitted1) != 1:
                return False, "not one emission"
            em = emitted1[0]
            got = em[0] if em else None
            if inp["action"] == "UserAddNode":
                return got != inp["args"]["n"], f"emitted {emitted1}"
            if inp["action"] == "paint":
                v = inp["args"]["value"]
                created = v != 0 and v not in S0["nodes"]
                return (got != v) if created else (got is not None), f"emitted {emitted1}, created={created}"
            return got is not None, f"emitted {emitted1}"
        if inp.get("enable_mid"):
            mid = inp["enable_mid"]
            tr.enable_features([mid])
            if mid in RP_KEYS:
                rpk = rpk + [mid]
            rm = state_checks(":after_mid_enable")
            if rm is not None:
                return rm[0], detail + " (after enabling " + mid + ") " + rm[1]
        if inp.get("disable_mid"):
            dmid = inp["disable_mid"]
            tr.disable_features([dmid])
            rpk = [k_ for k_ in rpk if k_ != dmid]
            n1 = {n: dict(d) for n, d in tr.graph.nodes(data=True)}
            e1 = {(u, v): dict(d) for u, v, d in tr.graph.edges(data=True)}
            if ob == "C10.disabled_feature_untouched_by_undo":
                tr.undo()
                g2 = tr.graph
                if dmid == "iou":
                    for e, d in e1.items():
                        if g2.has_edge(*e) and not close(d.get("iou"), g2.edges[e].get("iou")):
                            return True, detail + f" edge {e}: disabled iou changed by undo {d.get('iou')} -> " \
                                                  f"{g2.edges[e].get('iou')}"
                else:
                    for n, d in n1.items():
                        if n in g2 and not close(d.get(dmid), g2.nodes[n].get(dmid)):
                            return True, detail + f" node {n}: disabled {dmid} changed by undo {d.get(dmid)} -> " \
                                                  f"{g2.nodes[n].get(dmid)}"
                return False, detail
        del emitted[:]
        try:
            tr.undo()
            S2 = snapshot(tr)
            r2 = state_checks(":after_undo")
            e2 = list(emitted)
            del emitted[:]
            if r2 is None:
                tr.redo()
                S3 = snapshot(tr)
                r3 = state_checks(":after_redo")
                e3 = list(emitted)
        except Exception as e:
            return ob == "C01.inverse_applies", f"inverse raised {type(e).__name__}: {e}"
        if r2 is not None:
            return r2[0], detail + " (after undo) " + r2[1]
        if r3 is not None:
            return r3[0], detail + " (after redo) " + r3[1]
        detail += f" undone={_brief(S2)} seg2={S2['seg'].tolist()} redone={_brief(S3)} seg3={S3['seg'].tolist()}"
        if ob in ("C01.second_undo", "C01.second_redo", "C01.inverse_applies_again"):
            try:
                tr.undo()
                S4 = snapshot(tr)
                tr.redo()
                S5 = snapshot(tr)
            except Exception as e:
                return ob == "C01.inverse_applies_again", detail + f" second inverse raised {type(e).__name__}: {e}"
            detail += f" undone_again={_brief(S4)} seg4={S4['seg'].tolist()} redone_again={_brief(S5)}"
            if ob == "C01.second_undo":
                return not (same_graph(S0, S4) and attrs_close(S0, S4) and np.array_equal(S0["seg"], S4["seg"])), detail
            if ob == "C01.second_redo":
                return not (same_graph(S1, S5) and attrs_close(S1, S5) and np.array_equal(S1["seg"], S5["seg"])), detail
            return False, detail
        table = {
            "C01.undo_graph": same_graph(S0, S2),
            "C01.undo_attrs": attrs_close(S0, S2),
            "C01.undo_segmentation": np.array_equal(S0["seg"], S2["seg"]),
            "C01.redo_graph": same_graph(S1, S3),
            "C01.redo_attrs": attrs_close(S1, S3),
            "C01.redo_segmentation": np.array_equal(S1["seg"], S3["seg"]),
            "C07.undo_restores_array": np.array_equal(S0["seg"], S2["seg"]),
            "C07.redo_repaints_array": np.array_equal(S1["seg"], S3["seg"]),
            "C20.undo_one_refresh": len(e2) == 1 and len(e3) == 1,
            "C20.signal_delivers_after_edit": R._signal_delivers(tr, emitted),
            "C01.inverse_applies": True,
        }
        if ob in table:
            return (not table[ob]), detail
        return False, f"no oracle for {ob}"
