"""C18: candidate graph construction (real code: funtracks.candidate_graph.{utils,compute_graph,iou}).

Stubs (contract level): scipy KDTree.query_ball_tree (closed Euclidean ball, p=2),
skimage regionprops (one region per label present, area/centroid uninterpreted functions of the
label's mask bits and spacing), candidate_graph.iou._compute_ious (overlapping label pairs with
uninterpreted IOU(inter, union)), tqdm (identity).
"""
from __future__ import annotations

import math
from fractions import Fraction

import networkx as nx
import numpy as np
import z3

from sx.arr import SArr
from sx.rt import reraise_model_gap  # noqa: F401
from sx.rt import And, If, Implies, Not, Or, SInt, SReal, Unsupported, count, cur, same_value, tonum, unwrap

import funtracks.candidate_graph.compute_graph as cg
import funtracks.candidate_graph.iou as ci
import funtracks.candidate_graph.utils as cu

from harness.segstep import _IOU, rp_uf

_REAL = dict(kd=cu.KDTree, tqdm=cu.tqdm, rp=cu.regionprops, iou=ci._compute_ious, tqdm2=ci.tqdm)
LABELS = ()


def _r(x):
    e = tonum(x)
    return z3.ToReal(e) if z3.is_int(e) else e


class KD:
    def __init__(self, positions):
        self.p = [list(q) for q in positions]
        if not self.p:
            raise ValueError("data must be of shape (n, m), where there are n points of dimension m")

    def query_ball_tree(self, other, r, p=2.0, eps=0):
        # scipy contract: all points of `other` within Minkowski-p distance r (closed ball); eps > 0 allows
        # approximate answers, which has no exact contract
        if eps != 0:
            raise Unsupported("KDTree.query_ball_tree with eps != 0 (approximate search)")
        if p not in (1, 1.0, 2, 2.0, float("inf")):
            raise Unsupported(f"KDTree.query_ball_tree with p = {p}")
        re = _r(r)
        out = []
        for a in self.p:
            hits = []
            for j, b in enumerate(other.p):
                if p in (1, 1.0) or p == float("inf"):
                    ds = [_r(x) - _r(y) for x, y in zip(a, b)]
                    ab = [z3.If(d >= 0, d, -d) for d in ds]
                    near = (z3.Sum(ab) <= re) if p in (1, 1.0) else And([x <= re for x in ab])
                elif len(a) == 1:
                    # one spatial dimension: |a - b| <= r is linear arithmetic
                    d = _r(a[0]) - _r(b[0])
                    near = And(d <= re, -d <= re)
                else:
                    d2 = z3.Sum([(_r(x) - _r(y)) * (_r(x) - _r(y)) for x, y in zip(a, b)])
                    near = d2 <= re * re
                if cur().decide(And(near)):
                    hits.append(j)
            out.append(hits)
        return out


    def _pairs(self, other, r, strict_positive):
        re = _r(r)
        out = []
        for i, a in enumerate(self.p):
            for j, b in enumerate(other.p):
                d2 = z3.Sum([(_r(x) - _r(y)) * (_r(x) - _r(y)) for x, y in zip(a, b)])
                cond = And(d2 <= re * re, d2 > 0) if strict_positive else (d2 <= re * re)
                if cur().decide(And(cond)):
                    out.append((i, j))
        return out

    def sparse_distance_matrix(self, other, max_distance, p=2.0, output_type="dok_matrix"):
        """scipy contract: all pairs within max_distance; a sparse matrix stores a zero distance as an explicit
        zero, which `.nonzero()` / `.keys()` of the dok matrix drop"""
        if p not in (2, 2.0):
            raise Unsupported("sparse_distance_matrix with p != 2")
        return _SparseDist(self, other, max_distance)

    def query_pairs(self, *a, **k):
        raise Unsupported("KDTree.query_pairs is not modelled")

    def query_ball_point(self, x, r, **k):
        xs = [list(q) for q in (x if isinstance(x[0], (list, tuple)) else [x])]
        res = KD(xs).query_ball_tree(self, r)
        return res if isinstance(x[0], (list, tuple)) else res[0]

    def __getattr__(self, name):
        raise Unsupported(f"KDTree.{name} is not modelled")


class _SparseDist:
    def __init__(self, a, b, r):
        self.a, self.b, self.r = a, b, r
        self.shape = (len(a.p), len(b.p))

    def nonzero(self):
        pairs = self.a._pairs(self.b, self.r, strict_positive=True)
        return (np.array([i for i, _ in pairs], dtype=np.intp), np.array([j for _, j in pairs], dtype=np.intp))

    def keys(self):
        return self.a._pairs(self.b, self.r, strict_positive=True)

    def __getattr__(self, name):
        raise Unsupported(f"sparse distance matrix attribute {name} is not modelled")


class _Reg:
    def __init__(self, label, bits, spacing):
        self.label = label
        sp = [unwrap(s) if not isinstance(s, (int, float)) else z3.RealVal(s) for s in spacing]
        sp = [z3.ToReal(s) if z3.is_int(s) else s for s in sp]
        self.area = SReal(rp_uf("area", 0, len(bits), len(sp))(*bits, *sp))
        self.centroid = tuple(SReal(rp_uf("centroid", k, len(bits), len(sp))(*bits, *sp)) for k in range(len(sp)))


def rp_stub(frame, spacing=None, **kw):
    if isinstance(frame, np.ndarray):
        from sx.arr import _as_sarr

        frame = _as_sarr(frame)
    if not isinstance(frame, SArr):
        raise Unsupported("regionprops stub on " + type(frame).__name__)
    if spacing is None:
        spacing = (1,) * frame.c.ndim
    out = []
    for lab in LABELS:
        bits = [c == lab for c in frame.cells()]
        if cur().decide(Or(bits)):
            out.append(_Reg(lab, bits, spacing))
    return out


_IOU_X = z3.Function("IOU_called_with_extra_arguments", z3.IntSort(), z3.IntSort(), z3.RealSort())


def iou_stub(f1, f2, *xa, **extra):
    """contract stub of _compute_ious(frame1, frame2).  If a changed caller passes MORE than the two frames the
    contract says nothing about the result: the values are then terms of a different uninterpreted function, the
    obligation fails in the engine and the real kernel decides in the replay."""
    from sx.arr import _as_sarr

    fn = _IOU
    if xa or extra:
        cur().tag("iou_stub:extra_arguments")
        fn = _IOU_X

    f1 = _as_sarr(f1) if isinstance(f1, np.ndarray) else f1
    f2 = _as_sarr(f2) if isinstance(f2, np.ndarray) else f2
    c1, c2 = f1.cells(), f2.cells()
    pres1 = [a for a in LABELS if cur().decide(Or([x == a for x in c1]))]
    pres2 = [b for b in LABELS if cur().decide(Or([y == b for y in c2]))]
    out = []
    for a in pres1:
        for b in pres2:
            inter = count(And(x == a, y == b) for x, y in zip(c1, c2))
            if cur().decide(inter > 0):
                union = count(Or(x == a, y == b) for x, y in zip(c1, c2))
                out.append((a, b, SReal(fn(inter, union))))
    return out


def install():
    cu.KDTree = KD
    cu.tqdm = lambda x, *a, **k: x
    ci.tqdm = lambda x, *a, **k: x
    cu.regionprops = rp_stub
    ci._compute_ious = iou_stub


def remove():
    cu.KDTree, cu.tqdm, cu.regionprops = _REAL["kd"], _REAL["tqdm"], _REAL["rp"]
    ci._compute_ious, ci.tqdm = _REAL["iou"], _REAL["tqdm2"]


# ------------------------------------------------------------------ points list
def points_harness(ctx, cfg):
    install()
    try:
        _points(ctx, cfg)
    finally:
        remove()


def _points(ctx, cfg):
    M, TF, D = cfg["M"], cfg["frames"], cfg.get("dims", 2)
    c = np.empty((M, 1 + D), dtype=object)
    fixed_t, far = cfg.get("fixed_t"), cfg.get("far", ())
    for i in range(M):
        if fixed_t is not None:
            # many-detections run: the frame layout is concrete (ids >= 8 reach Python's set-order / hash-table
            # effects that small graphs never show), positions stay symbolic except for the `far` rows
            c[i, 0] = z3.IntVal(fixed_t[i])
        else:
            c[i, 0] = z3.Int(f"t{i}")
            ctx.add(And(c[i, 0] >= 0, c[i, 0] < TF))
        for d in range(D):
            if i in far:
                c[i, 1 + d] = z3.RealVal(-100 * (1 + list(far).index(i)))
            else:
                c[i, 1 + d] = z3.Real(f"p{i}_{d}")
                if far:
                    ctx.add(And(c[i, 1 + d] >= 0, c[i, 1 + d] <= 10))
    r = z3.Real("r")
    ctx.add(r >= 0)
    if far:
        ctx.add(r <= 20)
    ctx.input("points", [[c[i, k] for k in range(1 + D)] for i in range(M)])
    ctx.input("no_frame_dict", bool(cfg.get("no_frame_dict")))
    ctx.input("r", r)
    ctx.env.update(t=[c[i, 0] for i in range(M)], M=M)
    pts = SArr(c.copy(), np.float64)
    scale = None
    if cfg.get("scale") == "sym":
        # time is not rescaled (dummy factor 1, as documented for the segmentation variant)
        sc = [z3.Real(f"scale{d}") for d in range(D)]
        ctx.add(And([x > 0 for x in sc]))
        scale = [1] + [SReal(x) for x in sc]
        ctx.input("scale", [1] + sc)
        for i in range(M):
            for d in range(D):
                c[i, 1 + d] = c[i, 1 + d] * sc[d]  # the oracle below works on the scaled positions
    else:
        ctx.input("scale", None)
    try:
        if cfg.get("no_frame_dict"):
            # the two-step public API: nodes first, then edges with the frame dictionary recomputed from the graph
            G, _ = cu.nodes_from_points_list(pts, scale=scale)
            cu.add_cand_edges(G, SReal(r))
        else:
            G = cg.compute_graph_from_points_list(pts, SReal(r), scale=scale)
    except Unsupported:
        raise
    except Exception as e:
        reraise_model_gap(e)
        ctx.tag(f"raised:{type(e).__name__}")
        ctx.oblige("C18.builds_without_error", False, "C18")
        return
    ctx.tag("built")
    ctx.oblige("C18.one_node_per_detection", sorted(G.nodes) == list(range(M)), "C18")
    cs = []
    for i in range(M):
        a = G.nodes[i] if i in G.nodes else {}
        cs.append(And(same_value(a.get("time"), SInt(c[i, 0])),
                      same_value(list(a.get("pos", [])), [SReal(c[i, 1 + d]) for d in range(D)])))
    ctx.oblige("C18.node_time_and_position", And(cs), "C18")
    es = []
    for i in range(M):
        for j in range(M):
            if i == j:
                es.append(z3.BoolVal(not G.has_edge(i, j)))
                continue
            if D == 1:
                dd = c[i, 1] - c[j, 1]
                near = And(dd <= r, -dd <= r)
            else:
                d2 = z3.Sum([(c[i, 1 + d] - c[j, 1 + d]) * (c[i, 1 + d] - c[j, 1 + d]) for d in range(D)])
                near = d2 <= r * r
            es.append(z3.BoolVal(G.has_edge(i, j)) == And(c[j, 0] == c[i, 0] + 1, near))
    ctx.oblige("C18.edges_iff_consecutive_and_near", And(es), "C18")
    ts = [c[i, 0] for i in range(M)]
    ctx.witness("frame_gap", And([Or([ts[i] == 0 for i in range(M)]), Or([ts[i] == 2 for i in range(M)]),
                                  And([ts[i] != 1 for i in range(M)])]) if TF >= 3 else z3.BoolVal(True))


def _f(x):
    if isinstance(x, list) and len(x) == 2:
        return float(Fraction(x[0], x[1]))
    return float(x)


def points_replay(f):
    from funtracks.candidate_graph.compute_graph import compute_graph_from_points_list

    inp = f["inputs"]
    pts = np.array([[_f(v) for v in row] for row in inp["points"]], dtype=float)
    r = _f(inp["r"])
    scale = None if inp.get("scale") is None else [_f(x) for x in inp["scale"]]
    try:
        if inp.get("no_frame_dict"):
            from funtracks.candidate_graph.utils import add_cand_edges, nodes_from_points_list

            G, _ = nodes_from_points_list(pts, scale=scale)
            add_cand_edges(G, r)
        else:
            G = compute_graph_from_points_list(pts, r, scale=scale)
        if scale is not None:
            pts = pts * np.array(scale)
    except Exception as e:
        reraise_model_gap(e)
        return f["obligation"] == "C18.builds_without_error", f"points={pts.tolist()} raised {type(e).__name__}: {e}"
    M = len(pts)
    ob = f["obligation"]
    detail = f"points={pts.tolist()} r={r} nodes={list(G.nodes(data=True))} edges={sorted(G.edges)}"
    if ob == "C18.builds_without_error":
        return False, "the real builder did not raise on " + detail
    if ob == "C18.one_node_per_detection":
        return sorted(G.nodes) != list(range(M)), detail
    if ob == "C18.node_time_and_position":
        for i in range(M):
            if G.nodes[i]["time"] != pts[i, 0] or list(G.nodes[i]["pos"]) != list(pts[i, 1:]):
                return True, detail
        return False, detail
    if ob == "C18.edges_iff_consecutive_and_near":
        for i in range(M):
            for j in range(M):
                d = math.dist(pts[i, 1:], pts[j, 1:])
                if i != j and abs(d - r) < 1e-9:
                    continue  # boundary of the ball: floating point may go either way
                want = i != j and pts[j, 0] == pts[i, 0] + 1 and d <= r
                if G.has_edge(i, j) != want:
                    return True, detail + f" edge {(i, j)}: has={G.has_edge(i, j)} want={want}"
        return False, detail
    return False, "no oracle"


# ------------------------------------------------------------------ segmentation
def seg_harness(ctx, cfg):
    install()
    try:
        _seg(ctx, cfg)
    finally:
        remove()


def _seg(ctx, cfg):
    global LABELS
    ctx.allow_realise = True  # labels 0..L
    shape = tuple(cfg["shape"])
    assert len(shape) >= 3, "frames must be 2-D or 3-D (skimage regionprops)"
    L = cfg["labels"]
    LABELS = tuple(range(1, L + 1))
    seg = SArr.fresh("c", shape, np.int64)
    inp = seg.c.copy()
    cells = list(np.ndindex(*shape))
    for x in inp.flat:
        ctx.add(And(x >= 0, x <= L))
    # documented precondition: labels are unique across time
    ctx.add(And([Implies(And(inp[a] != 0, inp[b] != 0), inp[a] != inp[b]) for a in cells for b in cells
                 if a[0] < b[0]]))
    scale_sym = cfg.get("scale") == "sym"
    scale = None
    if scale_sym:
        scale = [1] + [SReal(z3.Real(f"scale{d}")) for d in range(1, len(shape))]
        ctx.add(And([s.e > 0 for s in scale[1:]]))
        # counterexamples are easier to replay with voxel sizes that are neither 1 nor equal to each other
        ctx.prefer(And([s.e != 1 for s in scale[1:]]))
        ctx.prefer(z3.Distinct(*[s.e for s in scale[1:]]) if len(scale) > 2 else z3.BoolVal(True))
        ctx.prefer(And([Or(s.e == 2, s.e == 3, s.e * 2 == 1) for s in scale[1:]]))
    r = z3.Real("r")
    ctx.add(r >= 0)
    ctx.input("shape", list(shape))
    ctx.input("cells", [inp[idx] for idx in cells])
    ctx.input("r", r)
    ctx.input("scale", None if scale is None else [1] + [s.e for s in scale[1:]])
    try:
        G = cg.compute_graph_from_seg(seg, SReal(r), iou=True, scale=scale)
    except Unsupported:
        raise
    except Exception as e:
        reraise_model_gap(e)
        ctx.tag(f"raised:{type(e).__name__}")
        ctx.oblige("C18.builds_without_error", False, "C18")
        return
    ctx.tag("built")
    spacing = [z3.RealVal(1)] * (len(shape) - 1) if scale is None else [s.e for s in scale[1:]]
    T = shape[0]
    frame_cells = lambda t: [idx for idx in cells if idx[0] == t]  # noqa: E731
    bits = {(lab, t): [inp[idx] == lab for idx in frame_cells(t)] for lab in LABELS for t in range(T)}
    present = {(lab, t): Or(bits[(lab, t)]) for lab in LABELS for t in range(T)}
    ns, attrs = [], []
    for lab in LABELS:
        anywhere = Or([present[(lab, t)] for t in range(T)])
        ns.append(z3.BoolVal(lab in G.nodes) == anywhere)
        if lab in G.nodes:
            a = G.nodes[lab]
            for t in range(T):
                want_area = SReal(rp_uf("area", 0, len(bits[(lab, t)]), len(spacing))(*bits[(lab, t)], *spacing))
                want_pos = [SReal(rp_uf("centroid", k, len(bits[(lab, t)]), len(spacing))(*bits[(lab, t)], *spacing))
                            for k in range(len(spacing))]
                attrs.append(Implies(present[(lab, t)], And(
                    z3.BoolVal(a.get("time") == t), z3.BoolVal(a.get("seg_id") == lab),
                    same_value(a.get("area"), want_area), same_value(list(a.get("pos", ())), want_pos))))
    ctx.oblige("C18.one_node_per_detection", And(ns + [z3.BoolVal(all(n in LABELS for n in G.nodes))]), "C18")
    ctx.oblige("C18.node_time_position_area", And(attrs), "C18")
    es, ious = [], []
    for a in LABELS:
        for b in LABELS:
            has = G.has_edge(a, b)
            conds = []
            for t in range(T - 1):
                pa = [rp_uf("centroid", k, len(bits[(a, t)]), len(spacing))(*bits[(a, t)], *spacing)
                      for k in range(len(spacing))]
                pb = [rp_uf("centroid", k, len(bits[(b, t + 1)]), len(spacing))(*bits[(b, t + 1)], *spacing)
                      for k in range(len(spacing))]
                d2 = z3.Sum([(x - y) * (x - y) for x, y in zip(pa, pb)])
                conds.append(And(present[(a, t)], present[(b, t + 1)], d2 <= r * r))
                if has:
                    c1 = [inp[idx] for idx in frame_cells(t)]
                    c2 = [inp[idx] for idx in frame_cells(t + 1)]
                    inter = count(And(x == a, y == b) for x, y in zip(c1, c2))
                    union = count(Or(x == a, y == b) for x, y in zip(c1, c2))
                    stored = G.edges[a, b].get("iou")
                    if stored is None:
                        ok = z3.BoolVal(False)
                    else:
                        se = tonum(stored)
                        se = z3.ToReal(se) if z3.is_int(se) else se
                        ok = se == If(inter > 0, _IOU(inter, union), z3.RealVal(0))
                    ious.append(Implies(And(present[(a, t)], present[(b, t + 1)]), ok))
            es.append(z3.BoolVal(has) == Or(conds))
    ctx.oblige("C18.edges_iff_consecutive_and_near", And(es), "C18")
    ctx.oblige("C18.iou_is_true_overlap", And(ious), "C18")
    ctx.oblige("C18.input_untouched", all(z3.eq(x, y) for x, y in zip(seg.c.flat, inp.flat)), "C18")
    if T >= 3:
        ctx.witness("empty_middle_frame", And([inp[idx] == 0 for idx in frame_cells(1)]
                                              + [Or([inp[idx] != 0 for idx in frame_cells(0)])]))


def seg_replay(f):
    from skimage.measure import regionprops

    from funtracks.candidate_graph.compute_graph import compute_graph_from_seg

    inp = f["inputs"]
    shape = tuple(inp["shape"])
    seg = np.array(inp["cells"], dtype=np.int64).reshape(shape)
    before = seg.copy()
    r = _f(inp["r"])
    scale = None if inp["scale"] is None else [_f(s) for s in inp["scale"]]
    try:
        G = compute_graph_from_seg(seg, r, iou=True, scale=scale)
    except Exception as e:
        reraise_model_gap(e)
        return f["obligation"] == "C18.builds_without_error", f"seg={before.tolist()} raised {type(e).__name__}: {e}"
    ob = f["obligation"]
    detail = f"seg={before.tolist()} r={r} scale={scale} nodes={list(G.nodes(data=True))} edges={list(G.edges(data=True))}"
    sp = tuple(scale[1:]) if scale else tuple([1] * (seg.ndim - 1))
    det = {}
    for t in range(shape[0]):
        for reg in regionprops(before[t], spacing=sp):
            det[reg.label] = (t, reg.area, reg.centroid)
    if ob == "C18.builds_without_error":
        return False, "the real builder did not raise on " + detail
    if ob == "C18.input_untouched":
        return (not np.array_equal(seg, before)), detail
    if ob == "C18.one_node_per_detection":
        return set(G.nodes) != set(det), detail
    if ob == "C18.node_time_position_area":
        for lab, (t, area, cen) in det.items():
            a = G.nodes[lab]
            if a["time"] != t or a["seg_id"] != lab or not np.isclose(a["area"], area) or not np.allclose(a["pos"], cen):
                return True, detail
        return False, detail
    if ob == "C18.edges_iff_consecutive_and_near":
        for a, (ta, _, ca) in det.items():
            for b, (tb, _, cb) in det.items():
                d = math.dist(ca, cb)
                if abs(d - r) < 1e-9:
                    continue
                want = tb == ta + 1 and d <= r
                if G.has_edge(a, b) != want:
                    return True, detail + f" edge {(a, b)} has={G.has_edge(a, b)} want={want}"
        return False, detail
    if ob == "C18.iou_is_true_overlap":
        for a, b, d in G.edges(data=True):
            ma, mb = before[det[a][0]] == a, before[det[b][0]] == b
            inter, union = int(np.sum(ma & mb)), int(np.sum(ma | mb))
            want = inter / union if inter else 0
            if d.get("iou") is None or not np.isclose(d["iou"], want):
                return True, detail + f" edge {(a, b)} iou={d.get('iou')} want={want}"
        return False, detail
    return False, "no oracle"
