"""C02 lemma (a): the real ActionHistory + Tracks.undo/redo follow the never-forgetting linear
timeline, for every operation sequence up to the bound, over abstract exactly-invertible actions.

The k-th new action pushes entry k (with an unconstrained symbolic payload) onto a word; its
inverse pops it and TRAPS if entry k is not on top, i.e. if the history ever applies an inverse in
a state other than the action's post-state.  ActionHistory calls nothing but inverse(), so its
behaviour on free generators transfers to any exactly-invertible action (C01).
"""
from __future__ import annotations

import networkx as nx
import z3

from sx.rt import And, Unsupported

from funtracks.actions._base import Action
from funtracks.data_model.tracks import Tracks


class Trap(Exception):
    pass


class World:
    def __init__(self):
        self.word = []  # list of entries (k, payload term)


class Push(Action):
    def __init__(self, w, entry, apply=True):
        self.w, self.entry = w, entry
        if apply:
            w.word.append(entry)

    def inverse(self):
        if not self.w.word or self.w.word[-1] is not self.entry:
            raise Trap(f"inverse of push {self.entry[0]} applied in a state that is not its post-state")
        self.w.word.pop()
        return Pop(self.w, self.entry)


class Pop(Action):
    """the inverse of a Push (already applied); its inverse re-applies the push"""

    def __init__(self, w, entry):
        self.w, self.entry = w, entry

    def inverse(self):
        return Push(self.w, self.entry)


def same_word(a, b):
    if len(a) != len(b):
        return z3.BoolVal(False)
    return And([z3.BoolVal(x[0] == y[0]) for x, y in zip(a, b)] + [x[1] == y[1] for x, y in zip(a, b)])


def harness(ctx, cfg):
    n = cfg["length"]
    # for_prop: the run serves as the undo/redo lemma of another property (harness/history_real.py)
    P = cfg.get("for_prop", "C02")
    pre = "C02." if P == "C02" else f"{P}.undo_redo_lemma:"
    w = World()
    tr = Tracks(nx.DiGraph(), ndim=3)
    emitted = []
    tr.refresh.connect(lambda *a: emitted.append(a))
    T = [[]]  # reference timeline of visited states (words), cursor c
    c = 0
    ops = []
    k = 0
    visited = [[]]
    ok_state, ok_ret, ok_emit = [], [], []
    try:
        for step in range(n):
            op = ctx.choose(3, f"op{step}")
            del emitted[:]
            ops.append(("edit", "undo", "redo")[op])
            if op == 0:
                k += 1
                entry = (k, z3.Int(f"payload{k}"))
                act = Push(w, entry)
                tr.action_history.add_new_action(act)  # what every top-level user action does
                new_state = T[c] + [entry]
                T = T + list(reversed(T[c:len(T) - 1])) + [new_state]
                c = len(T) - 1
                visited.append(list(new_state))
            elif op == 1:
                r = tr.undo()
                want = c > 0
                if want:
                    c -= 1
                ok_ret.append(r is want)
                ok_emit.append(len(emitted) == (1 if want else 0))
            else:
                r = tr.redo()
                want = c < len(T) - 1
                if want:
                    c += 1
                ok_ret.append(r is want)
                ok_emit.append(len(emitted) == (1 if want else 0))
            ok_state.append(same_word(w.word, T[c]))
        # every state ever visited stays on the timeline: step forward to its end, then undo all the way
        guard = 0
        while tr.redo():
            guard += 1
            if guard > 4 * len(T) + 4:
                raise Trap("redo does not terminate")
        seen = [list(w.word)]
        guard = 0
        while tr.undo():
            seen.append(list(w.word))
            guard += 1
            if guard > 4 * len(T) + 4:
                raise Trap("undo does not terminate")
        reach = And([z3.Or([same_word(v, s) for s in seen]) for v in visited])
    except Trap as e:
        ctx.tag("trap")
        ctx.input("ops", ops)
        ctx.oblige(pre + "inverse_applied_only_in_post_state", False, P)
        return
    ctx.input("ops", ops)
    ctx.tag("completed")
    ctx.tag("ops:" + "".join(o[0] for o in ops))
    ctx.oblige(pre + "state_follows_timeline", And(ok_state), P)
    if P == "C02":
        ctx.oblige("C02.return_false_iff_nothing_to_step", all(ok_ret), "C02")
        ctx.oblige("C02.refresh_once_per_step", all(ok_emit), "C02")
    ctx.oblige(pre + "every_visited_state_stays_on_timeline", reach, P)


def replay(f):
    """concrete re-run of the op sequence on the real ActionHistory with integer payloads"""
    ops = f["inputs"]["ops"]

    class W:
        word = []

    w = World()
    tr = Tracks(nx.DiGraph(), ndim=3)
    emitted = []
    tr.refresh.connect(lambda *a: emitted.append(a))
    T, c, k = [[]], 0, 0
    visited = [[]]
    try:
        for op in ops:
            del emitted[:]
            if op == "edit":
                k += 1
                entry = (k, k * 10)
                tr.action_history.add_new_action(Push(w, entry))
                ns = T[c] + [entry]
                T = T + list(reversed(T[c:len(T) - 1])) + [ns]
                c = len(T) - 1
                visited.append(ns)
            else:
                r = tr.undo() if op == "undo" else tr.redo()
                want = c > 0 if op == "undo" else c < len(T) - 1
                if want:
                    c += -1 if op == "undo" else 1
                if r is not want:
                    return True, f"ops={ops}: {op} returned {r}, timeline says {want}"
                if len(emitted) != (1 if want else 0):
                    return True, f"ops={ops}: {op} emitted {len(emitted)} refresh signals"
            if [e[0] for e in w.word] != [e[0] for e in T[c]]:
                return True, f"ops={ops}: state {[e[0] for e in w.word]} != timeline state {[e[0] for e in T[c]]}"
        n = 0
        while tr.redo():
            n += 1
            if n > 4 * len(T) + 4:
                return True, "redo does not terminate"
        seen = [[e[0] for e in w.word]]
        n = 0
        while tr.undo():
            seen.append([e[0] for e in w.word])
            n += 1
            if n > 4 * len(T) + 4:
                return True, "undo does not terminate"
        for v in visited:
            if [e[0] for e in v] not in seen:
                return True, f"ops={ops}: visited state {[e[0] for e in v]} not reachable by undoing (seen {seen})"
    except Trap as e:
        return True, f"ops={ops}: {e}"
    return False, f"ops={ops}: follows the timeline"
